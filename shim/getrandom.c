/* LD_PRELOAD shim: makes the keys std's RandomState obtains through getrandom(2) a pure function
 * of $VERIF_HASH_SEED, so the iteration order of every HashMap in the process is reproducible.
 * Without VERIF_HASH_SEED the call is forwarded to the kernel. */
#define _GNU_SOURCE
#include <stdlib.h>
#include <string.h>
#include <sys/types.h>
#include <unistd.h>
#include <sys/syscall.h>

ssize_t getrandom(void *buf, size_t buflen, unsigned int flags) {
    const char *seed = getenv("VERIF_HASH_SEED");
    if (!seed) return syscall(SYS_getrandom, buf, buflen, flags);
    unsigned long long x = strtoull(seed, NULL, 10) * 0x9E3779B97F4A7C15ULL + 0xD1B54A32D192ED03ULL;
    unsigned char *p = buf;
    for (size_t i = 0; i < buflen; i++) {
        x ^= x >> 12; x ^= x << 25; x ^= x >> 27;
        p[i] = (unsigned char)((x * 0x2545F4914F6CDD1DULL) >> 56);
    }
    return (ssize_t)buflen;
}

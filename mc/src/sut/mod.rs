pub mod pipe;
pub mod worker;

pub mod worker;

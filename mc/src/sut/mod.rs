pub mod bin;
pub mod pipe;
pub mod runner;
pub mod worker;

//! In-process driver, route (B): real files on disk -> `AnalysisRunner::with_files` (the same
//! parsing, include and desugaring code `main` uses) -> per-definition analysis in an order chosen
//! by the harness (hook H3), with a writer that collects what would be written.
use crate::infra::{catch, PanicInfo};
use program_analysis::analysis_runner::AnalysisRunner;
use program_structure::constants::Curve;
use program_structure::file_definition::FileLibrary;
use program_structure::report::{MessageCategory, Report};
use program_structure::writers::{LogWriter, ReportWriter};
use std::fmt::Display;
use std::path::{Path, PathBuf};

/// A label of a finding, resolved against the file library.
#[derive(Clone, Debug, PartialEq, Eq, PartialOrd, Ord)]
pub struct LabelInfo {
    pub file: String,
    pub file_id: usize,
    pub start: usize,
    pub end: usize,
    pub message: String,
    /// Text under the label (None if the range is not valid for the file).
    pub text: Option<String>,
    pub user_input: bool,
}

#[derive(Clone, Debug, PartialEq, Eq, PartialOrd, Ord)]
pub struct Finding {
    pub id: String,
    pub level: String,
    pub message: String,
    pub primary: Vec<LabelInfo>,
    pub secondary: Vec<LabelInfo>,
    pub notes: Vec<String>,
}

impl Finding {
    /// Identity that does not depend on positions or paths: (id, level, message, labelled texts).
    pub fn key(&self) -> String {
        let texts = |ls: &Vec<LabelInfo>| {
            let mut v: Vec<String> = ls.iter().map(|l| format!("{}|{}", l.message, l.text.clone().unwrap_or_default())).collect();
            v.sort();
            v.join(";")
        };
        format!("{} [{}] {} P:{} S:{}", self.id, self.level, self.message, texts(&self.primary), texts(&self.secondary))
    }
    pub fn short(&self) -> String {
        format!("{} [{}] {}", self.id, self.level, self.message)
    }
}

pub fn level_name(c: &MessageCategory) -> &'static str {
    match c {
        MessageCategory::Error => "error",
        MessageCategory::Warning => "warning",
        MessageCategory::Info => "info",
    }
}

pub fn finding_of(report: &Report, lib: &FileLibrary) -> Finding {
    use codespan_reporting_files::name_and_source;
    let label = |l: &program_structure::report::ReportLabel| {
        let (file, source) = name_and_source(lib, l.file_id);
        let text = source.as_ref().and_then(|s| {
            if l.range.start <= l.range.end && l.range.end <= s.len() && s.is_char_boundary(l.range.start) && s.is_char_boundary(l.range.end) {
                Some(s[l.range.clone()].to_string())
            } else {
                None
            }
        });
        LabelInfo {
            file,
            file_id: l.file_id,
            start: l.range.start,
            end: l.range.end,
            message: l.message.clone(),
            text,
            user_input: lib.is_user_input(l.file_id),
        }
    };
    Finding {
        id: report.id(),
        level: level_name(report.category()).to_string(),
        message: report.message().clone(),
        primary: report.primary().iter().map(label).collect(),
        secondary: report.secondary().iter().map(label).collect(),
        notes: report.notes().clone(),
    }
}

mod codespan_reporting_files {
    use program_structure::file_definition::FileLibrary;
    /// (name, source) of a file id, if it is in the library.
    pub fn name_and_source(lib: &FileLibrary, file_id: usize) -> (String, Option<String>) {
        match lib.to_storage().get(file_id) {
            Ok(file) => (file.name().to_string(), Some(file.source().to_string())),
            Err(_) => (format!("<unknown file {file_id}>"), None),
        }
    }
}

pub use codespan_reporting_files::name_and_source;

/// Collects everything handed to the writer (no filtering at all).
#[derive(Default)]
pub struct Collector {
    pub reports: Vec<Report>,
    pub messages: Vec<String>,
}

impl LogWriter for Collector {
    fn write_messages<D: Display>(&mut self, messages: &[D]) {
        for m in messages {
            self.messages.push(format!("{m}"));
        }
    }
}

impl ReportWriter for Collector {
    fn write_reports(&mut self, reports: &[Report], _: &FileLibrary) -> usize {
        self.reports.extend(reports.iter().cloned());
        reports.len()
    }
    fn reports_written(&self) -> usize {
        self.reports.len()
    }
}

pub struct Loaded {
    pub runner: AnalysisRunner,
    /// Reports of the parsing phase.
    pub parse_reports: Vec<Report>,
}

pub fn load(files: &[PathBuf], libs: &[PathBuf], curve: Curve) -> Result<Loaded, PanicInfo> {
    catch(|| {
        let (runner, parse_reports) = AnalysisRunner::new(curve).with_libraries(libs).with_files(files);
        Loaded { runner, parse_reports }
    })
}

/// Writes a project into a fresh directory.
pub fn write_project(dir: &Path, files: &[(&str, &str)]) -> Vec<PathBuf> {
    let _ = std::fs::create_dir_all(dir);
    files
        .iter()
        .map(|(name, text)| {
            let path = dir.join(name);
            if let Some(parent) = path.parent() {
                let _ = std::fs::create_dir_all(parent);
            }
            std::fs::write(&path, text).expect("write project file");
            path
        })
        .collect()
}

/// Runs the whole analysis the way `main` does (functions first, then templates, map order),
/// returning every report handed to the writer, unfiltered.
pub fn analyze_all(loaded: &mut Loaded) -> Result<Collector, PanicInfo> {
    let mut out = Collector::default();
    let parse = loaded.parse_reports.clone();
    let runner = &mut loaded.runner;
    catch(move || {
        out.write_reports(&parse, runner.file_library());
        runner.analyze_functions(&mut out, true);
        runner.analyze_templates(&mut out, true);
        out
    })
}

//! Binary driver: runs the production `circomspect` binary (hooks off) built from /repo and
//! parses what the *user* sees: exit status, diagnostics on stdout, log lines, summary line,
//! SARIF file.
use serde_json::Value;
use std::io::Read;
use std::path::{Path, PathBuf};
use std::process::{Command, Stdio};
use std::time::{Duration, Instant};

pub fn bin_path() -> PathBuf {
    PathBuf::from(std::env::var("VERIF_BIN").unwrap_or_else(|_| "/verif/.target/repo/release/circomspect".into()))
}

pub fn shim_path() -> PathBuf {
    PathBuf::from(std::env::var("VERIF_SHIM").unwrap_or_else(|_| "/verif/.target/getrandom_shim.so".into()))
}

#[derive(Clone, Debug, Default, PartialEq, Eq)]
pub struct Diagnostic {
    /// error | warning | note | help | bug
    pub severity: String,
    /// Report id (only printed with --verbose).
    pub id: Option<String>,
    pub message: String,
    /// `path:line:col` of the first label, if any label is rendered.
    pub location: Option<(String, usize, usize)>,
    /// Text of label messages, in rendering order.
    pub labels: Vec<String>,
    pub notes: Vec<String>,
    /// Line numbers of the source lines shown in the snippet(s) of this diagnostic.
    pub snippet_lines: Vec<usize>,
}

impl Diagnostic {
    pub fn level(&self) -> &'static str {
        match self.severity.as_str() {
            "error" | "bug" => "error",
            "warning" => "warning",
            _ => "info",
        }
    }
}

#[derive(Clone, Debug, Default)]
pub struct BinRun {
    pub exit: Option<i32>,
    pub killed_by_signal: Option<i32>,
    pub timed_out: bool,
    pub stdout: String,
    pub stderr: String,
    pub wall_ms: u64,
    pub diagnostics: Vec<Diagnostic>,
    /// `circomspect: ...` lines.
    pub log: Vec<String>,
    /// analyzing template/function lines, in order: (kind, name).
    pub analyzed: Vec<(String, String)>,
    pub summary: Option<String>,
    pub sarif: Option<Value>,
    pub sarif_raw: Option<String>,
}

impl BinRun {
    /// Number announced by the summary line (`No issues found.` = 0).
    pub fn summary_count(&self) -> Option<usize> {
        let s = self.summary.as_ref()?;
        if s.starts_with("No issues found") {
            Some(0)
        } else {
            s.split_whitespace().next()?.parse().ok()
        }
    }
    pub fn panicked(&self) -> bool {
        self.stderr.contains("panicked at") || self.exit == Some(101)
    }
    pub fn panic_signature(&self) -> Option<String> {
        // thread 'main' panicked at parser/src/lang.rs:12:5:\nmessage
        let pos = self.stderr.find("panicked at ")?;
        let rest = &self.stderr[pos + "panicked at ".len()..];
        let mut lines = rest.lines();
        let loc = lines.next().unwrap_or("").trim().trim_end_matches(':');
        let msg = lines.next().unwrap_or("").trim();
        let file = loc.split(':').next().unwrap_or(loc);
        let file = match file.find("/registry/src/") {
            Some(p) => {
                let rest = &file[p + "/registry/src/".len()..];
                format!("dep:{}", rest.split_once('/').map(|(_, r)| r).unwrap_or(rest))
            }
            None => file.trim_start_matches("/repo/").to_string(),
        };
        let msg: String = msg.chars().take(60).map(|c| if c.is_ascii_digit() { '#' } else { c }).collect();
        Some(format!("panic@{file}::{msg}"))
    }
}

pub fn parse_stdout(stdout: &str) -> (Vec<Diagnostic>, Vec<String>, Vec<(String, String)>, Option<String>) {
    let mut diags: Vec<Diagnostic> = Vec::new();
    let mut log = Vec::new();
    let mut analyzed = Vec::new();
    let mut summary = None;
    let mut cur: Option<Diagnostic> = None;
    for line in stdout.lines() {
        if let Some(rest) = line.strip_prefix("circomspect: ") {
            if let Some(d) = cur.take() {
                diags.push(d);
            }
            log.push(rest.to_string());
            for kind in ["template", "function"] {
                if let Some(name) = rest.strip_prefix(&format!("analyzing {kind} '")) {
                    analyzed.push((kind.to_string(), name.trim_end_matches('\'').to_string()));
                }
            }
            if rest.ends_with("issues found.") || rest.ends_with("issue found.") || rest.starts_with("No issues found") {
                summary = Some(rest.to_string());
            }
            continue;
        }
        // Header line: `severity[ID]: message` or `severity: message` at column 0.
        let header = ["error", "warning", "note", "help", "bug"].iter().find_map(|sev| {
            let rest = line.strip_prefix(sev)?;
            if let Some(r) = rest.strip_prefix(": ") {
                return Some((sev.to_string(), None, r.to_string()));
            }
            let r = rest.strip_prefix('[')?;
            let (id, r) = r.split_once("]: ")?;
            Some((sev.to_string(), Some(id.to_string()), r.to_string()))
        });
        if let Some((severity, id, message)) = header {
            if let Some(d) = cur.take() {
                diags.push(d);
            }
            cur = Some(Diagnostic { severity, id, message, ..Default::default() });
            continue;
        }
        let Some(d) = cur.as_mut() else { continue };
        let trimmed = line.trim_start();
        if trimmed.contains('│') || trimmed.contains('╭') || trimmed.contains('╰') {
            if let Some(n) = trimmed.split(|c: char| !c.is_ascii_digit()).next().and_then(|t| t.parse::<usize>().ok()) {
                d.snippet_lines.push(n);
            }
        }
        if let Some(loc) = trimmed.strip_prefix("┌─ ") {
            // path:line:col — the path may contain ':'.
            let mut parts = loc.rsplitn(3, ':');
            let col = parts.next().and_then(|s| s.trim().parse().ok());
            let lin = parts.next().and_then(|s| s.parse().ok());
            let path = parts.next();
            if let (Some(c), Some(l), Some(p)) = (col, lin, path) {
                if d.location.is_none() {
                    d.location = Some((p.to_string(), l, c));
                }
            }
        } else if let Some(note) = trimmed.strip_prefix("= ") {
            d.notes.push(note.to_string());
        } else if let Some(pos) = trimmed.find(|c| c == '^' || c == '-') {
            // Label underline followed by its message: `│     ^^^^^ message`.
            let tail = &trimmed[pos..];
            let msg = tail.trim_start_matches(|c| c == '^' || c == '-').trim();
            if trimmed.starts_with('│') && !msg.is_empty() && (tail.starts_with("^^") || tail.starts_with("--") || tail.starts_with("^ ") || tail.starts_with("- ")) {
                d.labels.push(msg.to_string());
            }
        }
    }
    if let Some(d) = cur.take() {
        diags.push(d);
    }
    (diags, log, analyzed, summary)
}

pub struct BinOpts<'a> {
    pub args: Vec<String>,
    pub cwd: &'a Path,
    pub hash_seed: Option<u64>,
    pub timeout: Duration,
    pub sarif_file: Option<PathBuf>,
    /// Address-space limit in bytes (None = unlimited).
    pub mem_limit: Option<u64>,
}

pub fn run_bin(opts: &BinOpts) -> BinRun {
    run_bin_stack(opts, None)
}

/// As `run_bin`, with the main-thread stack of the child limited to `stack_kb` KiB (the tool runs
/// its work on a thread with a stack of its own, so a small main-thread stack must not matter).
pub fn run_bin_stack(opts: &BinOpts, stack_kb: Option<u64>) -> BinRun {
    let mut cmd = Command::new(bin_path());
    cmd.args(&opts.args).current_dir(opts.cwd).stdin(Stdio::null()).stdout(Stdio::piped()).stderr(Stdio::piped());
    cmd.env_remove("RUST_LOG");
    // A caller that needs the child's debug log asks for it explicitly.
    if let Ok(level) = std::env::var("VERIF_CHILD_RUST_LOG") {
        cmd.env("RUST_LOG", level);
    }
    cmd.env("RUST_BACKTRACE", "0");
    if let Some(seed) = opts.hash_seed {
        cmd.env("LD_PRELOAD", shim_path()).env("VERIF_HASH_SEED", seed.to_string());
    }
    if let Some(file) = &opts.sarif_file {
        let _ = std::fs::remove_file(file);
    }
    if let Some(kb) = stack_kb {
        use std::os::unix::process::CommandExt;
        unsafe {
            cmd.pre_exec(move || {
                let lim = libc::rlimit { rlim_cur: (kb * 1024) as libc::rlim_t, rlim_max: (kb * 1024) as libc::rlim_t };
                libc::setrlimit(libc::RLIMIT_STACK, &lim);
                Ok(())
            });
        }
    }
    if let Some(mem) = opts.mem_limit {
        use std::os::unix::process::CommandExt;
        unsafe {
            cmd.pre_exec(move || {
                let lim = libc::rlimit { rlim_cur: mem as libc::rlim_t, rlim_max: mem as libc::rlim_t };
                libc::setrlimit(libc::RLIMIT_AS, &lim);
                Ok(())
            });
        }
    }
    let start = Instant::now();
    let mut child = match cmd.spawn() {
        Ok(c) => c,
        Err(e) => {
            return BinRun { stderr: format!("MACHINERY: cannot spawn binary: {e}"), ..Default::default() };
        }
    };
    // Drain pipes on threads so a chatty child cannot block.
    let mut out_pipe = child.stdout.take().unwrap();
    let mut err_pipe = child.stderr.take().unwrap();
    let out_thread = std::thread::spawn(move || {
        let mut buf = Vec::new();
        let _ = out_pipe.read_to_end(&mut buf);
        String::from_utf8_lossy(&buf).to_string()
    });
    let err_thread = std::thread::spawn(move || {
        let mut buf = Vec::new();
        let _ = err_pipe.read_to_end(&mut buf);
        String::from_utf8_lossy(&buf).to_string()
    });
    let deadline = start + opts.timeout;
    let mut timed_out = false;
    let status = loop {
        match child.try_wait() {
            Ok(Some(status)) => break Some(status),
            Ok(None) => {
                if Instant::now() >= deadline {
                    let _ = child.kill();
                    timed_out = true;
                    break child.wait().ok();
                }
                std::thread::sleep(Duration::from_millis(1));
            }
            Err(_) => break None,
        }
    };
    let stdout = out_thread.join().unwrap_or_default();
    let stderr = err_thread.join().unwrap_or_default();
    let mut run = BinRun { stdout, stderr, timed_out, wall_ms: start.elapsed().as_millis() as u64, ..Default::default() };
    if let Some(status) = status {
        use std::os::unix::process::ExitStatusExt;
        run.exit = status.code();
        run.killed_by_signal = status.signal();
    }
    let (d, l, a, s) = parse_stdout(&run.stdout);
    run.diagnostics = d;
    run.log = l;
    run.analyzed = a;
    run.summary = s;
    if let Some(file) = &opts.sarif_file {
        if let Ok(text) = std::fs::read_to_string(file) {
            run.sarif = serde_json::from_str(&text).ok();
            run.sarif_raw = Some(text);
        }
    }
    run
}

#[derive(Clone, Debug, PartialEq, Eq, PartialOrd, Ord)]
pub struct SarifResult {
    pub rule_id: String,
    pub level: String,
    pub message: String,
    /// (uri, startLine, startColumn, endLine, endColumn, label message) of every primary location.
    pub locations: Vec<(String, u64, u64, u64, u64, String)>,
    pub related: Vec<(String, u64, u64, u64, u64, String)>,
}

pub fn sarif_results(sarif: &Value) -> (Vec<SarifResult>, Vec<String>) {
    let mut out = Vec::new();
    let mut rules = Vec::new();
    let empty = Vec::new();
    for run in sarif["runs"].as_array().unwrap_or(&empty) {
        for rule in run["tool"]["driver"]["rules"].as_array().unwrap_or(&empty) {
            rules.push(rule["id"].as_str().unwrap_or("").to_string());
        }
        for r in run["results"].as_array().unwrap_or(&empty) {
            let locs = |key: &str| -> Vec<(String, u64, u64, u64, u64, String)> {
                r[key]
                    .as_array()
                    .unwrap_or(&empty)
                    .iter()
                    .map(|l| {
                        let region = &l["physicalLocation"]["region"];
                        (
                            l["physicalLocation"]["artifactLocation"]["uri"].as_str().unwrap_or("").to_string(),
                            region["startLine"].as_u64().unwrap_or(0),
                            region["startColumn"].as_u64().unwrap_or(0),
                            region["endLine"].as_u64().unwrap_or(0),
                            region["endColumn"].as_u64().unwrap_or(0),
                            l["message"]["text"].as_str().unwrap_or("").to_string(),
                        )
                    })
                    .collect()
            };
            out.push(SarifResult {
                rule_id: r["ruleId"].as_str().unwrap_or("").to_string(),
                level: r["level"].as_str().unwrap_or("").to_string(),
                message: r["message"]["text"].as_str().unwrap_or("").to_string(),
                locations: locs("locations"),
                related: locs("relatedLocations"),
            });
        }
    }
    (out, rules)
}

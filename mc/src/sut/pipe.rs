//! In-process driver, route (A): source text of one definition -> `parse_definition` ->
//! `into_cfg` -> `into_ssa` -> analysis passes, performing the same public-API calls as the
//! analysis runner does. Every stage is wrapped in panic capture.
use crate::infra::{catch, PanicInfo};
use program_analysis::analysis_context::{AnalysisContext, AnalysisError};
use program_structure::ast::Definition;
use program_structure::cfg::{Cfg, IntoCfg};
use program_structure::constants::Curve;
use program_structure::file_definition::{FileID, FileLocation};
use program_structure::report::{Report, ReportCollection};

pub fn curve_of(name: &str) -> Curve {
    match name {
        "BLS12_381" => Curve::Bls12_381,
        "GOLDILOCKS" => Curve::Goldilocks,
        _ => Curve::Bn254,
    }
}

pub const CURVES: [&str; 3] = ["BN254", "BLS12_381", "GOLDILOCKS"];

#[derive(Debug)]
pub enum Stage {
    Parse,
    Cfg,
    Ssa,
    Passes,
}

pub enum LiftError {
    /// The parser rejected the text (or it does not hold exactly one definition).
    NotParsed,
    /// Lifting reported an error (message of the report).
    Rejected { stage: Stage, message: String },
    Panic { stage: Stage, info: PanicInfo },
}

pub fn parse(src: &str) -> Result<Option<Definition>, PanicInfo> {
    catch(|| parser::parse_definition(src))
}

/// CFG before SSA conversion (plus the reports produced while lifting).
pub fn to_cfg(def: &Definition, curve: &Curve) -> Result<(Cfg, ReportCollection), LiftError> {
    let mut reports = ReportCollection::new();
    let def = def.clone();
    match catch(|| def.into_cfg(curve, &mut reports)) {
        Ok(Ok(cfg)) => Ok((cfg, reports)),
        Ok(Err(e)) => Err(LiftError::Rejected { stage: Stage::Cfg, message: format!("{e}") }),
        Err(info) => Err(LiftError::Panic { stage: Stage::Cfg, info }),
    }
}

pub fn to_ssa(cfg: Cfg) -> Result<Cfg, LiftError> {
    match catch(|| cfg.into_ssa()) {
        Ok(Ok(cfg)) => Ok(cfg),
        Ok(Err(e)) => Err(LiftError::Rejected { stage: Stage::Ssa, message: format!("{e:?}") }),
        Err(info) => Err(LiftError::Panic { stage: Stage::Ssa, info }),
    }
}

/// Source text -> SSA CFG.
pub fn lift(src: &str, curve: &Curve) -> Result<(Cfg, ReportCollection), LiftError> {
    let def = match parse(src) {
        Ok(Some(def)) => def,
        Ok(None) => return Err(LiftError::NotParsed),
        Err(info) => return Err(LiftError::Panic { stage: Stage::Parse, info }),
    };
    let (cfg, reports) = to_cfg(&def, curve)?;
    let cfg = to_ssa(cfg)?;
    Ok((cfg, reports))
}

/// A context that knows no other definition (single-definition analyses).
pub struct LoneContext;

impl AnalysisContext for LoneContext {
    fn is_function(&self, _: &str) -> bool {
        false
    }
    fn is_template(&self, _: &str) -> bool {
        false
    }
    fn function(&mut self, name: &str) -> Result<&Cfg, AnalysisError> {
        Err(AnalysisError::UnknownFunction { name: name.to_string() })
    }
    fn template(&mut self, name: &str) -> Result<&Cfg, AnalysisError> {
        Err(AnalysisError::UnknownTemplate { name: name.to_string() })
    }
    fn underlying_str(&self, file_id: &FileID, _: &FileLocation) -> Result<String, AnalysisError> {
        Err(AnalysisError::UnknownFile { file_id: *file_id })
    }
}

/// Runs every analysis pass over the CFG, exactly as `AnalysisRunner::analyze_*` does.
pub fn run_passes(cfg: &Cfg) -> Result<Vec<Report>, PanicInfo> {
    catch(|| {
        let mut ctx = LoneContext;
        let mut reports = Vec::new();
        for pass in program_analysis::get_analysis_passes() {
            reports.append(&mut pass(&mut ctx, cfg));
        }
        reports
    })
}

/// Route (B): the definition is written to a real file, loaded with `AnalysisRunner::with_files`
/// (parse_files, desugaring, `TemplateData` / `FunctionData`, definition merger when a main
/// component is present) and lifted by the runner itself; returns the SSA CFG the passes see.
pub fn lift_via_runner(src: &str, dir: &std::path::Path, name: &str, function: bool, with_main: bool) -> Result<Cfg, LiftError> {
    lift_via_runner_curve(src, dir, name, function, with_main, Curve::Bn254)
}

pub fn lift_via_runner_curve(src: &str, dir: &std::path::Path, name: &str, function: bool, with_main: bool, curve: Curve) -> Result<Cfg, LiftError> {
    let text = if with_main && !function {
        // No pragma line: spans in the file equal spans in `src`.
        format!("{src}\ncomponent main = {name}(1);\n")
    } else {
        src.to_string()
    };
    let files = crate::sut::runner::write_project(dir, &[("r.circom", &text)]);
    let mut loaded = match crate::sut::runner::load(&files, &[], curve) {
        Ok(l) => l,
        Err(info) => return Err(LiftError::Panic { stage: Stage::Parse, info }),
    };
    let r = catch(|| if function { loaded.runner.take_function(name) } else { loaded.runner.take_template(name) });
    match r {
        Ok(Ok(cfg)) => Ok(cfg),
        Ok(Err(e)) => Err(LiftError::Rejected { stage: Stage::Ssa, message: format!("{e}") }),
        Err(info) => Err(LiftError::Panic { stage: Stage::Ssa, info }),
    }
}

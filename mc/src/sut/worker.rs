//! Isolated single-case execution: `vmc worker <kind> <json>` runs one case in a fresh process
//! under an address-space limit; the parent enforces a wall-clock deadline. A hang, abort or
//! stack overflow in the code under test is thereby attributed to exactly one case.
use serde_json::{json, Value};
use std::io::Read;
use std::process::{Command, Stdio};
use std::time::{Duration, Instant};

#[derive(Debug, Clone)]
pub enum WorkerOutcome {
    /// The worker finished and printed this JSON value.
    Done(Value),
    /// The deadline passed; the worker was killed.
    Timeout,
    /// The worker died (signal, abort, memory limit, stack overflow).
    Crashed { status: String, stderr: String },
}

pub fn worker_main(kind: &str, arg: &str) -> ! {
    if let Some(mem) = std::env::var("VERIF_WORKER_MEM").ok().and_then(|s| s.parse::<u64>().ok()) {
        unsafe {
            let lim = libc::rlimit { rlim_cur: mem as libc::rlim_t, rlim_max: mem as libc::rlim_t };
            libc::setrlimit(libc::RLIMIT_AS, &lim);
        }
    }
    let input: Value = serde_json::from_str(arg).unwrap_or(Value::Null);
    let output = match kind {
        "c16" => crate::props::c16::worker(&input),
        _ => json!({"machinery_error": format!("unknown worker kind {kind}")}),
    };
    println!("{}", serde_json::to_string(&output).unwrap());
    std::process::exit(0)
}

pub fn spawn_worker(kind: &str, arg: &Value, timeout: Duration, mem_bytes: u64) -> WorkerOutcome {
    let exe = std::env::current_exe().expect("current exe");
    let mut child = Command::new(exe)
        .arg("worker")
        .arg(kind)
        .arg(serde_json::to_string(arg).unwrap())
        .env("VERIF_WORKER_MEM", mem_bytes.to_string())
        .stdin(Stdio::null())
        .stdout(Stdio::piped())
        .stderr(Stdio::piped())
        .spawn()
        .expect("spawn worker");
    let deadline = Instant::now() + timeout;
    loop {
        match child.try_wait() {
            Ok(Some(status)) => {
                let mut out = String::new();
                let mut err = String::new();
                if let Some(mut s) = child.stdout.take() {
                    let _ = s.read_to_string(&mut out);
                }
                if let Some(mut s) = child.stderr.take() {
                    let _ = s.read_to_string(&mut err);
                }
                if status.success() {
                    if let Some(line) = out.lines().last() {
                        if let Ok(v) = serde_json::from_str::<Value>(line) {
                            return WorkerOutcome::Done(v);
                        }
                    }
                }
                return WorkerOutcome::Crashed {
                    status: format!("{status}"),
                    stderr: crate::infra::truncate(&err, 400),
                };
            }
            Ok(None) => {
                if Instant::now() >= deadline {
                    let _ = child.kill();
                    let _ = child.wait();
                    return WorkerOutcome::Timeout;
                }
                std::thread::sleep(Duration::from_millis(3));
            }
            Err(e) => {
                return WorkerOutcome::Crashed { status: format!("wait failed: {e}"), stderr: String::new() }
            }
        }
    }
}

//! Concrete interpreter over the **real SSA CFG**, read through public accessors (front end (b)).
//! Memory is keyed by (name, suffix); versions are ignored, so the interpreter executes the
//! program the graph encodes regardless of how SSA numbered it (phi statements are no-ops).
//! Observers see every dynamic evaluation of every IR node, every write and every branch.
use crate::refsem::field::{BinOp, Expect, Field, UnOp};
use num_bigint_dig::BigUint;
use num_traits::{One, Zero};
use program_structure::cfg::{Cfg, DefinitionType};
use program_structure::ir::{
    AccessType, Expression, ExpressionInfixOpcode, ExpressionPrefixOpcode, LogArgument, SignalType,
    Statement, VariableName, VariableType,
};
use std::collections::HashMap;

pub type Key = (String, Option<String>);

pub fn key_of(name: &VariableName) -> Key {
    (name.name().clone(), name.suffix().clone())
}

#[derive(Clone, Debug, PartialEq, Eq)]
pub enum Val {
    Num(BigUint),
    Arr(Vec<Val>),
}

impl Val {
    pub fn zero() -> Val {
        Val::Num(BigUint::zero())
    }
    pub fn as_num(&self) -> Option<&BigUint> {
        match self {
            Val::Num(n) => Some(n),
            Val::Arr(_) => None,
        }
    }
    pub fn zeros(dims: &[usize]) -> Val {
        match dims.split_first() {
            None => Val::zero(),
            Some((n, rest)) => Val::Arr((0..*n).map(|_| Val::zeros(rest)).collect()),
        }
    }
}

/// Why a run stopped before the end of the definition.
#[derive(Clone, Debug, PartialEq, Eq)]
pub enum Stop {
    /// Ran off the graph or executed a `return`.
    Finished,
    Returned,
    /// Out of fuel (loops are cut; everything audited so far stands).
    Fuel,
    /// Circom aborts here or the behaviour is not pinned down: the run is discarded from this
    /// point on (division by zero, index out of range, unassigned signal, array used as number).
    Trap(String),
    Malformed(String),
}

/// Environment answers: parameters, input signals, component ports, helper functions.
pub trait World {
    /// Value of a parameter / input signal / component port, addressed by its printed path
    /// (`n`, `in`, `in[1]`, `c.out`, `c[0].out[2]`).
    fn input(&self, path: &str) -> BigUint;
    /// Result of calling a function; None = unknown function (the run traps).
    fn call(&self, field: &Field, name: &str, args: &[Val]) -> Option<Val>;
}

pub trait Observer {
    /// Called after each evaluation of an expression node.
    fn expr(&mut self, _expr: &Expression, _value: &Val) {}
    /// Called before a statement executes.
    fn stmt(&mut self, _block: usize, _index: usize, _stmt: &Statement) {}
    /// Called when a value is about to be written by a substitution; may replace it.
    fn write(&mut self, _block: usize, _index: usize, _stmt: &Statement, value: Val) -> Val {
        value
    }
    /// Called after a substitution wrote `value` (the whole variable for element updates).
    fn assigned(&mut self, _stmt: &Statement, _value: &Val) {}
    fn branch(&mut self, _block: usize, _taken: bool) {}
    fn returned(&mut self, _value: &Val) {}
    fn constraint(&mut self, _stmt: &Statement, _lhs: &Val, _rhs: &Val) {}
    fn assert(&mut self, _stmt: &Statement, _value: &Val) {}
    fn dimension(&mut self, _stmt: &Statement, _dims: &[usize]) {}
    fn signal_written(&mut self, _path: &str, _value: &Val, _stmt: &Statement) {}
    /// Called when the evaluation of an arithmetic node is an error (division by zero, ...):
    /// the node has no value in this run.
    fn undefined(&mut self, _expr: &Expression) {}
}

pub struct NoObserver;
impl Observer for NoObserver {}

pub struct Machine<'a> {
    pub cfg: &'a Cfg,
    pub field: &'a Field,
    pub world: &'a dyn World,
    pub locals: HashMap<Key, Val>,
    pub declared: HashMap<Key, VariableType>,
    pub signals: HashMap<String, BigUint>,
    pub fuel: usize,
    pub steps: usize,
    pub path: Vec<usize>,
    /// Degree oracle mode: every signal is an independent indeterminate, i.e. a signal read
    /// always asks the world and never sees an earlier assignment.
    pub signals_independent: bool,
}

pub fn binop_of(op: ExpressionInfixOpcode) -> BinOp {
    use ExpressionInfixOpcode::*;
    match op {
        Mul => BinOp::Mul,
        Div => BinOp::Div,
        Add => BinOp::Add,
        Sub => BinOp::Sub,
        Pow => BinOp::Pow,
        IntDiv => BinOp::IntDiv,
        Mod => BinOp::Mod,
        ShiftL => BinOp::ShiftL,
        ShiftR => BinOp::ShiftR,
        LesserEq => BinOp::LesserEq,
        GreaterEq => BinOp::GreaterEq,
        Lesser => BinOp::Lesser,
        Greater => BinOp::Greater,
        Eq => BinOp::Eq,
        NotEq => BinOp::NotEq,
        BoolOr => BinOp::BoolOr,
        BoolAnd => BinOp::BoolAnd,
        BitOr => BinOp::BitOr,
        BitAnd => BinOp::BitAnd,
        BitXor => BinOp::BitXor,
    }
}

pub fn unop_of(op: ExpressionPrefixOpcode) -> UnOp {
    match op {
        ExpressionPrefixOpcode::Sub => UnOp::Neg,
        ExpressionPrefixOpcode::BoolNot => UnOp::BoolNot,
        ExpressionPrefixOpcode::Complement => UnOp::Complement,
    }
}

type R<T> = Result<T, Stop>;

impl<'a> Machine<'a> {
    pub fn new(cfg: &'a Cfg, field: &'a Field, world: &'a dyn World, fuel: usize) -> Machine<'a> {
        let mut declared = HashMap::new();
        for (name, decl) in cfg.declarations().iter() {
            declared.insert(key_of(name), decl.variable_type().clone());
        }
        let mut locals = HashMap::new();
        for p in cfg.parameters().iter() {
            locals.insert(key_of(p), Val::Num(world.input(p.name()) % &field.p));
        }
        Machine {
            cfg,
            field,
            world,
            locals,
            declared,
            signals: HashMap::new(),
            fuel,
            steps: 0,
            path: Vec::new(),
            signals_independent: false,
        }
    }

    fn trap<T>(&self, what: &str) -> R<T> {
        Err(Stop::Trap(what.to_string()))
    }

    fn num(&self, v: &Val) -> R<BigUint> {
        match v {
            Val::Num(n) => Ok(n.clone()),
            Val::Arr(_) => self.trap("array used as a number"),
        }
    }

    fn index(&self, v: &Val) -> R<usize> {
        let n = self.num(v)?;
        if n > BigUint::from(1_000_000u32) {
            return self.trap("index out of range");
        }
        Ok(crate::refsem::field::usize_of(&n))
    }

    /// Evaluates the access list to a printed path suffix and the list of array indices that
    /// precede the first component access.
    fn access_path(&mut self, access: &[AccessType], obs: &mut dyn Observer) -> R<(String, Vec<usize>, bool)> {
        let mut path = String::new();
        let mut indices = Vec::new();
        let mut seen_component = false;
        for a in access {
            match a {
                AccessType::ArrayAccess(e) => {
                    let v = self.eval(e, obs)?;
                    let i = self.index(&v)?;
                    path.push_str(&format!("[{i}]"));
                    if !seen_component {
                        indices.push(i);
                    }
                }
                AccessType::ComponentAccess(name) => {
                    seen_component = true;
                    path.push('.');
                    path.push_str(name);
                }
            }
        }
        Ok((path, indices, seen_component))
    }

    fn var_type(&self, name: &VariableName) -> Option<&VariableType> {
        self.declared.get(&key_of(name))
    }

    fn read_local(&self, name: &VariableName) -> R<Val> {
        match self.locals.get(&key_of(name)) {
            Some(v) => Ok(v.clone()),
            // A declared local that was never written holds Circom's default (0); the harness
            // only generates such reads for scalars / declared arrays (declaration executed).
            None => self.trap("local read before its declaration executed"),
        }
    }

    fn signal_value(&self, name: &VariableName, path: &str) -> R<BigUint> {
        if self.signals_independent {
            return Ok(self.world.input(path) % &self.field.p);
        }
        if let Some(v) = self.signals.get(path) {
            return Ok(v.clone());
        }
        match self.var_type(name) {
            Some(VariableType::Signal(SignalType::Input, _)) => Ok(self.world.input(path) % &self.field.p),
            Some(VariableType::Component) | Some(VariableType::AnonymousComponent) => {
                Ok(self.world.input(path) % &self.field.p)
            }
            _ => self.trap("signal read before it is assigned"),
        }
    }

    pub fn eval(&mut self, e: &Expression, obs: &mut dyn Observer) -> R<Val> {
        use Expression::*;
        let v = match e {
            Number(_, n) => {
                let f = self.field.canon(n);
                Val::Num(f)
            }
            Variable { name, .. } => match self.var_type(name) {
                Some(VariableType::Local) => self.read_local(name)?,
                Some(VariableType::Signal(_, _)) => Val::Num(self.signal_value(name, name.name())?),
                Some(VariableType::Component) | Some(VariableType::AnonymousComponent) => {
                    return self.trap("component used as a value")
                }
                None => return self.trap("undeclared variable"),
            },
            Access { var, access, .. } => {
                let (path, indices, component) = self.access_path(access, obs)?;
                match self.var_type(var) {
                    Some(VariableType::Local) => {
                        if component {
                            return self.trap("component access on a local");
                        }
                        let mut v = self.read_local(var)?;
                        for i in indices {
                            v = match v {
                                Val::Arr(items) => match items.get(i) {
                                    Some(x) => x.clone(),
                                    None => return self.trap("index out of range"),
                                },
                                Val::Num(_) => return self.trap("indexing a number"),
                            };
                        }
                        v
                    }
                    Some(_) => {
                        let full = format!("{}{}", var.name(), path);
                        Val::Num(self.signal_value(var, &full)?)
                    }
                    None => return self.trap("undeclared variable"),
                }
            }
            InfixOp { lhe, infix_op, rhe, .. } => {
                let a = self.eval(lhe, obs)?;
                let b = self.eval(rhe, obs)?;
                let (a, b) = (self.num(&a)?, self.num(&b)?);
                match self.field.binop(binop_of(*infix_op), &a, &b) {
                    Expect::Value(v) | Expect::ValueOrError(v) => Val::Num(v),
                    Expect::Error => {
                        obs.undefined(e);
                        return self.trap("undefined arithmetic (division by zero)");
                    }
                }
            }
            PrefixOp { prefix_op, rhe, .. } => {
                let a = self.eval(rhe, obs)?;
                let a = self.num(&a)?;
                match self.field.unop(unop_of(*prefix_op), &a) {
                    Expect::Value(v) | Expect::ValueOrError(v) => Val::Num(v),
                    Expect::Error => {
                        obs.undefined(e);
                        return self.trap("undefined arithmetic");
                    }
                }
            }
            SwitchOp { cond, if_true, if_false, .. } => {
                let c = self.eval(cond, obs)?;
                let c = self.num(&c)?;
                if !c.is_zero() {
                    self.eval(if_true, obs)?
                } else {
                    self.eval(if_false, obs)?
                }
            }
            Call { name, args, .. } => {
                let mut vals = Vec::new();
                for a in args {
                    vals.push(self.eval(a, obs)?);
                }
                match self.world.call(self.field, name, &vals) {
                    Some(v) => v,
                    None => return self.trap("call of an unknown function"),
                }
            }
            InlineArray { values, .. } => {
                let mut vals = Vec::new();
                for a in values {
                    vals.push(self.eval(a, obs)?);
                }
                Val::Arr(vals)
            }
            Update { .. } | Phi { .. } => return Err(Stop::Malformed("update/phi in expression position".into())),
        };
        obs.expr(e, &v);
        Ok(v)
    }

    fn set_element(target: &mut Val, indices: &[usize], value: Val) -> Result<(), ()> {
        match indices.split_first() {
            None => {
                *target = value;
                Ok(())
            }
            Some((i, rest)) => match target {
                Val::Arr(items) => match items.get_mut(*i) {
                    Some(slot) => Self::set_element(slot, rest, value),
                    None => Err(()),
                },
                Val::Num(_) => Err(()),
            },
        }
    }

    fn exec_stmt(&mut self, block: usize, index: usize, stmt: &Statement, obs: &mut dyn Observer) -> R<Option<bool>> {
        obs.stmt(block, index, stmt);
        match stmt {
            Statement::Declaration { names, var_type, dimensions, .. } => {
                let mut dims = Vec::new();
                for d in dimensions {
                    let v = self.eval(d, obs)?;
                    let n = self.index(&v)?;
                    if n > 64 {
                        return self.trap("array too large for the interpreter");
                    }
                    dims.push(n);
                }
                obs.dimension(stmt, &dims);
                if matches!(var_type, VariableType::Local) {
                    let k = key_of(names.first());
                    // Declarations do not re-zero on re-execution: the harness never generates
                    // uninitialised declarations inside loops.
                    self.locals.entry(k).or_insert_with(|| Val::zeros(&dims));
                }
                Ok(None)
            }
            Statement::Substitution { var, rhe, .. } => {
                match rhe {
                    Expression::Phi { .. } => {
                        // Versions are ignored: a phi does not change memory.
                        if let Some(v) = self.locals.get(&key_of(var)).cloned() {
                            obs.assigned(stmt, &v);
                        }
                        Ok(None)
                    }
                    Expression::Update { access, rhe: inner, .. } => {
                        let value = self.eval(inner, obs)?;
                        let (path, indices, component) = self.access_path(access, obs)?;
                        let value = obs.write(block, index, stmt, value);
                        match self.var_type(var) {
                            Some(VariableType::Local) => {
                                if component {
                                    return self.trap("component access on a local");
                                }
                                let k = key_of(var);
                                let mut cur = match self.locals.get(&k) {
                                    Some(v) => v.clone(),
                                    None => return self.trap("array written before its declaration executed"),
                                };
                                if Self::set_element(&mut cur, &indices, value).is_err() {
                                    return self.trap("index out of range");
                                }
                                obs.assigned(stmt, &cur);
                                self.locals.insert(k, cur);
                            }
                            Some(_) => {
                                let full = format!("{}{}", var.name(), path);
                                if let Val::Num(n) = &value {
                                    self.signals.insert(full.clone(), n.clone());
                                }
                                obs.signal_written(&full, &value, stmt);
                            }
                            None => return self.trap("undeclared variable"),
                        }
                        Ok(None)
                    }
                    _ => {
                        if matches!(self.var_type(var), Some(VariableType::Component) | Some(VariableType::AnonymousComponent)) {
                            // Component instantiation: the template arguments are evaluated, the
                            // instantiation itself is opaque (ports are answered by the world).
                            if let Expression::Call { args, .. } = rhe {
                                for a in args {
                                    self.eval(a, obs)?;
                                }
                            }
                            return Ok(None);
                        }
                        let value = self.eval(rhe, obs)?;
                        let value = obs.write(block, index, stmt, value);
                        match self.var_type(var) {
                            Some(VariableType::Local) => {
                                obs.assigned(stmt, &value);
                                self.locals.insert(key_of(var), value);
                            }
                            Some(VariableType::Signal(_, _)) => {
                                if let Val::Num(n) = &value {
                                    self.signals.insert(var.name().clone(), n.clone());
                                }
                                obs.assigned(stmt, &value);
                                obs.signal_written(var.name(), &value, stmt);
                            }
                            Some(_) => {
                                // Component initialisation: opaque.
                            }
                            None => return self.trap("undeclared variable"),
                        }
                        Ok(None)
                    }
                }
            }
            Statement::IfThenElse { cond, .. } => {
                let c = self.eval(cond, obs)?;
                let c = self.num(&c)?;
                Ok(Some(!c.is_zero()))
            }
            Statement::Return { value, .. } => {
                let v = self.eval(value, obs)?;
                obs.returned(&v);
                Err(Stop::Returned)
            }
            Statement::ConstraintEquality { lhe, rhe, .. } => {
                let a = self.eval(lhe, obs)?;
                let b = self.eval(rhe, obs)?;
                obs.constraint(stmt, &a, &b);
                Ok(None)
            }
            Statement::LogCall { args, .. } => {
                for a in args {
                    if let LogArgument::Expr(e) = a {
                        self.eval(e, obs)?;
                    }
                }
                Ok(None)
            }
            Statement::Assert { arg, .. } => {
                let v = self.eval(arg, obs)?;
                obs.assert(stmt, &v);
                Ok(None)
            }
        }
    }

    pub fn run(&mut self, obs: &mut dyn Observer) -> Stop {
        let mut index = 0usize;
        loop {
            let Some(block) = self.cfg.get_basic_block(index) else {
                return Stop::Malformed(format!("edge to missing block {index}"));
            };
            self.path.push(index);
            let mut branch: Option<(bool, usize, Option<usize>)> = None;
            for (i, stmt) in block.statements().iter().enumerate() {
                self.steps += 1;
                if self.steps > self.fuel {
                    return Stop::Fuel;
                }
                match self.exec_stmt(index, i, stmt, obs) {
                    Ok(None) => {}
                    Ok(Some(taken)) => {
                        if let Statement::IfThenElse { true_index, false_index, .. } = stmt {
                            obs.branch(index, taken);
                            branch = Some((taken, *true_index, *false_index));
                        }
                    }
                    Err(stop) => return stop,
                }
            }
            let succs = block.successors();
            match branch {
                Some((true, t, _)) => index = t,
                Some((false, t, Some(f))) => {
                    let _ = t;
                    index = f
                }
                Some((false, t, None)) => {
                    let others: Vec<usize> = succs.iter().copied().filter(|s| *s != t).collect();
                    match others.len() {
                        0 => return Stop::Finished,
                        1 => index = others[0],
                        _ => return Stop::Malformed("ambiguous false edge".into()),
                    }
                }
                None => match succs.len() {
                    0 => return Stop::Finished,
                    1 => index = *succs.iter().next().unwrap(),
                    _ => return Stop::Malformed("several successors without a branch".into()),
                },
            }
        }
    }
}

pub fn is_template(cfg: &Cfg) -> bool {
    !matches!(cfg.definition_type(), DefinitionType::Function)
}

/// A world backed by a table with a default for everything else, and a few native helper
/// functions that the generated programs may call.
pub struct TableWorld {
    pub values: HashMap<String, BigUint>,
    pub default: BigUint,
}

impl World for TableWorld {
    fn input(&self, path: &str) -> BigUint {
        self.values.get(path).cloned().unwrap_or_else(|| self.default.clone())
    }
    fn call(&self, field: &Field, name: &str, args: &[Val]) -> Option<Val> {
        native_call(field, name, args)
    }
}

/// Helper functions with known bodies (their Circom source is `HELPER_SOURCE`).
pub fn native_call(field: &Field, name: &str, args: &[Val]) -> Option<Val> {
    let num = |i: usize| args.get(i).and_then(|v| v.as_num()).cloned();
    match name {
        // function cube(a) { return a * a * a; }
        "cube" => {
            let a = num(0)?;
            Some(Val::Num((&a * &a * &a) % &field.p))
        }
        // function inc(a) { return a + 1; }
        "inc" => {
            let a = num(0)?;
            Some(Val::Num((a + BigUint::one()) % &field.p))
        }
        // function mulf(a, b) { return a * b; }
        "mulf" => {
            let (a, b) = (num(0)?, num(1)?);
            Some(Val::Num((a * b) % &field.p))
        }
        // function seven() { return 7; }
        "seven" => Some(Val::Num(BigUint::from(7u32) % &field.p)),
        _ => None,
    }
}

pub const HELPER_SOURCE: &str = "function cube(a) { return a * a * a; }\nfunction inc(a) { return a + 1; }\nfunction mulf(a, b) { return a * b; }\nfunction seven() { return 7; }\n";

//! Lock-step path exploration: a structural walker over the generator's syntax (front end (a))
//! and a walker over the real CFG, both driven by the same string of branch/loop decisions.
use crate::space::prog::{normalise, Atom, Body, Cond, Ev, Node, Printed, SpanKind};
use program_structure::cfg::Cfg;
use program_structure::ir::{Expression, Statement};
use std::ops::Range;

#[derive(Clone, Debug, PartialEq, Eq)]
pub struct Event {
    pub span: Range<usize>,
    pub kind: &'static str,
    /// Normalised statement text.
    pub text: String,
}

#[derive(Debug, Default)]
pub struct SrcWalk {
    pub events: Vec<Event>,
    /// Every decision taken, in order (forced ones included).
    pub decisions: Vec<bool>,
    /// `forkable[i]`: decision i could also have been answered the other way.
    pub forkable: Vec<bool>,
    pub returned: bool,
    /// Number of loop-header visits and if-visits (for state counting).
    pub branch_visits: usize,
}

/// Number of node ids a subtree consumes in the printer's preorder numbering.
pub fn ids(node: &Node) -> usize {
    match node {
        Node::Atom(_) => 1,
        Node::If { then, els, .. } => {
            1 + body_ids(then) + els.as_ref().map(body_ids).unwrap_or(0)
        }
        Node::While { body, .. } => 1 + body_ids(body),
        Node::For { body, .. } => 3 + body_ids(body),
        Node::Block(nodes) => 1 + nodes.iter().map(ids).sum::<usize>(),
    }
}

fn body_ids(body: &Body) -> usize {
    body.nodes().iter().map(|n| ids(n)).sum()
}

struct SrcWalker<'a> {
    printed: &'a Printed,
    prefix: &'a [bool],
    unroll: usize,
    out: SrcWalk,
    max_events: usize,
}

impl<'a> SrcWalker<'a> {
    fn decide(&mut self, forced_false: bool) -> bool {
        let pos = self.out.decisions.len();
        let value = if forced_false {
            false
        } else if pos < self.prefix.len() {
            self.prefix[pos]
        } else {
            false
        };
        self.out.decisions.push(value);
        self.out.forkable.push(!forced_false);
        self.out.branch_visits += 1;
        value
    }

    fn atom(&mut self, atom: &Atom, id: usize) -> bool {
        let span = self
            .printed
            .span_of(id, SpanKind::Atom)
            .expect("atom span recorded")
            .range
            .clone();
        for ev in &atom.events {
            self.out.events.push(Event {
                span: span.clone(),
                kind: ev.kind(),
                text: normalise(ev.text()),
            });
            if ev.is_return() {
                self.out.returned = true;
                return false;
            }
        }
        true
    }

    fn cond(&mut self, cond: &Cond, id: usize, kind: SpanKind) {
        let span = self.printed.span_of(id, kind).expect("statement span recorded").range.clone();
        self.out.events.push(Event { span, kind: "cond", text: normalise(&format!("if {}", cond.text)) });
    }

    /// Returns false when execution stopped (return or event cap).
    fn nodes(&mut self, nodes: &[&Node], mut id: usize) -> bool {
        for node in nodes {
            if !self.node(node, id) {
                return false;
            }
            id += ids(node);
        }
        true
    }

    fn body(&mut self, body: &Body, id: usize) -> bool {
        self.nodes(&body.nodes(), id)
    }

    fn node(&mut self, node: &Node, id: usize) -> bool {
        if self.out.events.len() > self.max_events {
            return false;
        }
        match node {
            Node::Atom(atom) => self.atom(atom, id),
            Node::If { cond, then, els } => {
                self.cond(cond, id, SpanKind::If);
                if self.decide(false) {
                    self.body(then, id + 1)
                } else if let Some(els) = els {
                    self.body(els, id + 1 + body_ids(then))
                } else {
                    true
                }
            }
            Node::While { cond, body } => {
                let mut iterations = 0;
                loop {
                    self.cond(cond, id, SpanKind::While);
                    if !self.decide(iterations >= self.unroll) {
                        return true;
                    }
                    iterations += 1;
                    if !self.body(body, id + 1) {
                        return false;
                    }
                }
            }
            Node::For { init, cond, step, body } => {
                if !self.atom(init, id + 1) {
                    return false;
                }
                let mut iterations = 0;
                loop {
                    self.cond(cond, id, SpanKind::For);
                    if !self.decide(iterations >= self.unroll) {
                        return true;
                    }
                    iterations += 1;
                    if !self.body(body, id + 3) {
                        return false;
                    }
                    if !self.atom(step, id + 2) {
                        return false;
                    }
                }
            }
            Node::Block(nodes) => self.nodes(&nodes.iter().collect::<Vec<_>>(), id + 1),
        }
    }
}

/// Executes the structured program under the decision prefix (later decisions default to false;
/// a loop header answers true at most `unroll` times per entry).
pub fn walk_source(body: &[Node], printed: &Printed, prefix: &[bool], unroll: usize) -> SrcWalk {
    let mut w = SrcWalker { printed, prefix, unroll, out: SrcWalk::default(), max_events: 4000 };
    w.nodes(&body.iter().collect::<Vec<_>>(), 0);
    w.out
}

#[derive(Debug, PartialEq, Eq)]
pub enum CfgEnd {
    /// Reached a block without successor.
    Exit,
    /// A branch was met after all decisions were used.
    OutOfDecisions,
    Malformed(String),
    EventCap,
}

#[derive(Debug)]
pub struct CfgWalk {
    pub events: Vec<Event>,
    pub consumed: usize,
    pub end: CfgEnd,
    pub blocks_visited: usize,
}

pub fn is_phi(stmt: &Statement) -> bool {
    matches!(stmt, Statement::Substitution { rhe: Expression::Phi { .. }, .. })
}

pub fn stmt_event(stmt: &Statement) -> Event {
    let kind = match stmt {
        Statement::Declaration { .. } => "decl",
        Statement::IfThenElse { .. } => "cond",
        Statement::Return { .. } => "return",
        Statement::Substitution { .. } => "assign",
        Statement::ConstraintEquality { .. } => "constraint",
        Statement::LogCall { .. } => "log",
        Statement::Assert { .. } => "assert",
    };
    Event { span: stmt.meta().file_location(), kind, text: normalise(&format!("{stmt}")) }
}

/// Walks the real CFG from the entry block, taking the true / false edge of each branch
/// according to `decisions`.
pub fn walk_cfg(cfg: &Cfg, decisions: &[bool]) -> CfgWalk {
    let mut events = Vec::new();
    let mut consumed = 0;
    let mut index = 0usize;
    let mut blocks_visited = 0;
    loop {
        let Some(block) = cfg.get_basic_block(index) else {
            return CfgWalk {
                events,
                consumed,
                end: CfgEnd::Malformed(format!("edge to missing block {index}")),
                blocks_visited,
            };
        };
        blocks_visited += 1;
        if events.len() > 4500 {
            return CfgWalk { events, consumed, end: CfgEnd::EventCap, blocks_visited };
        }
        let stmts = block.statements();
        let mut branch = None;
        for (i, stmt) in stmts.iter().enumerate() {
            if is_phi(stmt) {
                continue;
            }
            if let Statement::IfThenElse { true_index, false_index, .. } = stmt {
                if i + 1 != stmts.len() {
                    return CfgWalk {
                        events,
                        consumed,
                        end: CfgEnd::Malformed(format!("branch in the middle of block {index}")),
                        blocks_visited,
                    };
                }
                branch = Some((*true_index, *false_index));
                // The condition is evaluated only if a decision is left; otherwise the walk
                // stops in front of it.
                if consumed >= decisions.len() {
                    return CfgWalk { events, consumed, end: CfgEnd::OutOfDecisions, blocks_visited };
                }
            }
            events.push(stmt_event(stmt));
        }
        let succs = block.successors();
        match branch {
            Some((true_index, false_index)) => {
                let d = decisions[consumed];
                consumed += 1;
                if d {
                    index = true_index;
                } else if let Some(f) = false_index {
                    index = f;
                } else {
                    let others: Vec<usize> =
                        succs.iter().copied().filter(|s| *s != true_index).collect();
                    match others.len() {
                        0 => return CfgWalk { events, consumed, end: CfgEnd::Exit, blocks_visited },
                        1 => index = others[0],
                        _ => {
                            return CfgWalk {
                                events,
                                consumed,
                                end: CfgEnd::Malformed(format!(
                                    "block {index}: no false target and several other successors"
                                )),
                                blocks_visited,
                            }
                        }
                    }
                }
            }
            None => match succs.len() {
                0 => return CfgWalk { events, consumed, end: CfgEnd::Exit, blocks_visited },
                1 => index = *succs.iter().next().unwrap(),
                _ => {
                    return CfgWalk {
                        events,
                        consumed,
                        end: CfgEnd::Malformed(format!(
                            "block {index} has no branch but {} successors",
                            succs.len()
                        )),
                        blocks_visited,
                    }
                }
            },
        }
    }
}

/// Depth-first enumeration of all decision strings (replay-from-prefix). Calls `visit` with each
/// complete source walk; returns the number of paths, or None if `max_paths` was hit.
pub fn explore_paths(
    body: &[Node],
    printed: &Printed,
    unroll: usize,
    max_paths: usize,
    visit: &mut dyn FnMut(&SrcWalk),
) -> Option<usize> {
    let mut stack: Vec<Vec<bool>> = vec![Vec::new()];
    let mut paths = 0;
    while let Some(prefix) = stack.pop() {
        let walk = walk_source(body, printed, &prefix, unroll);
        paths += 1;
        visit(&walk);
        if paths >= max_paths {
            return None;
        }
        // Fork every later decision that was answered by default (false) and may be true.
        for i in (prefix.len()..walk.decisions.len()).rev() {
            if walk.forkable[i] && !walk.decisions[i] {
                let mut next = walk.decisions[..i].to_vec();
                next.push(true);
                stack.push(next);
            }
        }
    }
    Some(paths)
}

#[allow(dead_code)]
pub fn ev_dummy(_: &Ev) {}

pub mod dom;
pub mod field;
pub mod interp;
pub mod lexer;
pub mod walk;

pub mod dom;
pub mod field;
pub mod lexer;
pub mod walk;

pub mod dom;
pub mod field;
pub mod walk;

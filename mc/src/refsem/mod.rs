pub mod dom;
pub mod field;

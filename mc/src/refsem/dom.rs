//! Dominance by definition, on graphs of at most 64 nodes given as successor bitmasks.
//! Independent of the implementation under test: no fixed-point iteration, no idom walk.

/// Graph with node 0 as entry. `succ[i]` is a bitmask of successors of `i`.
#[derive(Clone, Debug)]
pub struct Graph {
    pub n: usize,
    pub succ: Vec<u64>,
    pub pred: Vec<u64>,
}

impl Graph {
    pub fn from_succ(succ: Vec<u64>) -> Graph {
        let n = succ.len();
        let mut pred = vec![0u64; n];
        for (i, s) in succ.iter().enumerate() {
            for j in 0..n {
                if s >> j & 1 == 1 {
                    pred[j] |= 1 << i;
                }
            }
        }
        Graph { n, succ, pred }
    }

    /// Nodes reachable from 0 when the nodes in `removed` are deleted.
    pub fn reachable_without(&self, removed: u64) -> u64 {
        if removed & 1 == 1 {
            return 0;
        }
        let mut seen = 1u64;
        let mut frontier = 1u64;
        while frontier != 0 {
            let i = frontier.trailing_zeros() as usize;
            frontier &= frontier - 1;
            let next = self.succ[i] & !removed & !seen;
            seen |= next;
            frontier |= next;
        }
        seen
    }

    pub fn all_reachable(&self) -> bool {
        self.reachable_without(0) == full(self.n)
    }
}

pub fn full(n: usize) -> u64 {
    if n == 64 {
        u64::MAX
    } else {
        (1u64 << n) - 1
    }
}

#[derive(Clone, Debug, PartialEq, Eq)]
pub struct Dominance {
    /// dom[j] = bitmask of nodes lying on every path 0 -> j (includes j).
    pub dom: Vec<u64>,
    pub idom: Vec<Option<usize>>,
    pub children: Vec<u64>,
    pub frontier: Vec<u64>,
}

/// Computes everything by definition. Requires all nodes reachable from 0.
pub fn dominance(g: &Graph) -> Dominance {
    let n = g.n;
    let mut dom = vec![0u64; n];
    // i dominates j  <=>  j is not reachable once i is deleted (or i == j).
    for i in 0..n {
        let reach = g.reachable_without(1 << i);
        for (j, dom_j) in dom.iter_mut().enumerate() {
            if i == j || reach >> j & 1 == 0 {
                *dom_j |= 1 << i;
            }
        }
    }
    let mut idom = vec![None; n];
    let mut children = vec![0u64; n];
    for j in 0..n {
        let strict = dom[j] & !(1 << j);
        // The immediate dominator is the strict dominator that every other strict dominator
        // dominates.
        let mut found = None;
        for d in 0..n {
            if strict >> d & 1 == 1 && strict & !dom[d] == 0 {
                assert!(found.is_none(), "closest strict dominator is unique");
                found = Some(d);
            }
        }
        idom[j] = found;
        if let Some(d) = found {
            children[d] |= 1 << j;
        }
    }
    let mut frontier = vec![0u64; n];
    for i in 0..n {
        for j in 0..n {
            let strictly = i != j && dom[j] >> i & 1 == 1;
            if strictly {
                continue;
            }
            let mut preds = g.pred[j];
            while preds != 0 {
                let p = preds.trailing_zeros() as usize;
                preds &= preds - 1;
                if dom[p] >> i & 1 == 1 {
                    frontier[i] |= 1 << j;
                    break;
                }
            }
        }
    }
    Dominance { dom, idom, children, frontier }
}

pub fn mask_to_vec(mask: u64) -> Vec<usize> {
    (0..64).filter(|i| mask >> i & 1 == 1).collect()
}

//! Reference field semantics, written from the Circom language definition ("Basic operators")
//! and the statement of C16. Uses only BigUint primitives (+ - * / % << >> & | ^); never calls
//! `circom_algebra::modular_arithmetic`.
use num_bigint_dig::{BigInt, BigUint, Sign};
use num_traits::{One, Zero};

#[derive(Clone, Copy, Debug, PartialEq, Eq, Hash, PartialOrd, Ord)]
pub enum BinOp {
    Mul,
    Div,
    Add,
    Sub,
    Pow,
    IntDiv,
    Mod,
    ShiftL,
    ShiftR,
    LesserEq,
    GreaterEq,
    Lesser,
    Greater,
    Eq,
    NotEq,
    BoolOr,
    BoolAnd,
    BitOr,
    BitAnd,
    BitXor,
}

pub const ALL_BINOPS: [BinOp; 20] = [
    BinOp::Mul,
    BinOp::Div,
    BinOp::Add,
    BinOp::Sub,
    BinOp::Pow,
    BinOp::IntDiv,
    BinOp::Mod,
    BinOp::ShiftL,
    BinOp::ShiftR,
    BinOp::LesserEq,
    BinOp::GreaterEq,
    BinOp::Lesser,
    BinOp::Greater,
    BinOp::Eq,
    BinOp::NotEq,
    BinOp::BoolOr,
    BinOp::BoolAnd,
    BinOp::BitOr,
    BinOp::BitAnd,
    BinOp::BitXor,
];

impl BinOp {
    pub fn symbol(self) -> &'static str {
        match self {
            BinOp::Mul => "*",
            BinOp::Div => "/",
            BinOp::Add => "+",
            BinOp::Sub => "-",
            BinOp::Pow => "**",
            BinOp::IntDiv => "\\",
            BinOp::Mod => "%",
            BinOp::ShiftL => "<<",
            BinOp::ShiftR => ">>",
            BinOp::LesserEq => "<=",
            BinOp::GreaterEq => ">=",
            BinOp::Lesser => "<",
            BinOp::Greater => ">",
            BinOp::Eq => "==",
            BinOp::NotEq => "!=",
            BinOp::BoolOr => "||",
            BinOp::BoolAnd => "&&",
            BinOp::BitOr => "|",
            BinOp::BitAnd => "&",
            BinOp::BitXor => "^",
        }
    }
    pub fn name(self) -> &'static str {
        match self {
            BinOp::Mul => "mul",
            BinOp::Div => "div",
            BinOp::Add => "add",
            BinOp::Sub => "sub",
            BinOp::Pow => "pow",
            BinOp::IntDiv => "idiv",
            BinOp::Mod => "mod_op",
            BinOp::ShiftL => "shift_l",
            BinOp::ShiftR => "shift_r",
            BinOp::LesserEq => "lesser_eq",
            BinOp::GreaterEq => "greater_eq",
            BinOp::Lesser => "lesser",
            BinOp::Greater => "greater",
            BinOp::Eq => "eq",
            BinOp::NotEq => "not_eq",
            BinOp::BoolOr => "bool_or",
            BinOp::BoolAnd => "bool_and",
            BinOp::BitOr => "bit_or",
            BinOp::BitAnd => "bit_and",
            BinOp::BitXor => "bit_xor",
        }
    }
    pub fn is_comparison(self) -> bool {
        matches!(
            self,
            BinOp::LesserEq
                | BinOp::GreaterEq
                | BinOp::Lesser
                | BinOp::Greater
                | BinOp::Eq
                | BinOp::NotEq
        )
    }
    pub fn is_boolean(self) -> bool {
        matches!(self, BinOp::BoolOr | BinOp::BoolAnd)
    }
}

#[derive(Clone, Copy, Debug, PartialEq, Eq, Hash, PartialOrd, Ord)]
pub enum UnOp {
    Neg,
    BoolNot,
    Complement,
}

pub const ALL_UNOPS: [UnOp; 3] = [UnOp::Neg, UnOp::BoolNot, UnOp::Complement];

impl UnOp {
    pub fn symbol(self) -> &'static str {
        match self {
            UnOp::Neg => "-",
            UnOp::BoolNot => "!",
            UnOp::Complement => "~",
        }
    }
    pub fn name(self) -> &'static str {
        match self {
            UnOp::Neg => "prefix_sub",
            UnOp::BoolNot => "not",
            UnOp::Complement => "complement_256",
        }
    }
}

/// What the reference expects of an operation.
#[derive(Clone, Debug, PartialEq, Eq)]
pub enum Expect {
    /// Exactly this canonical value.
    Value(BigUint),
    /// Undefined case: must be reported as an error.
    Error,
    /// Over-large shift: the mathematically forced value or an error are both acceptable.
    ValueOrError(BigUint),
}

#[derive(Clone, Debug)]
pub struct Field {
    pub p: BigUint,
    pub half: BigUint,
    pub bits: usize,
    mask: BigUint,
}

impl Field {
    pub fn new(p: &BigUint) -> Field {
        let bits = p.bits();
        Field {
            p: p.clone(),
            half: p >> 1usize,
            bits,
            mask: (BigUint::one() << bits) - BigUint::one(),
        }
    }

    pub fn from_u64(p: u64) -> Field {
        Field::new(&BigUint::from(p))
    }

    pub fn reduce(&self, x: &BigUint) -> BigUint {
        x % &self.p
    }

    /// Canonical representative of a possibly negative integer.
    pub fn canon(&self, x: &BigInt) -> BigUint {
        let p = BigInt::from_biguint(Sign::Plus, self.p.clone());
        let r = ((x % &p) + &p) % &p;
        r.to_biguint().expect("non-negative")
    }

    pub fn pow(&self, base: &BigUint, exp: &BigUint) -> BigUint {
        // Square and multiply, most significant bit first. 0 ** 0 = 1.
        let mut result = BigUint::one() % &self.p;
        let nbits = exp.bits();
        for i in (0..nbits).rev() {
            result = (&result * &result) % &self.p;
            if ((exp >> i) & BigUint::one()) == BigUint::one() {
                result = (&result * base) % &self.p;
            }
        }
        result
    }

    pub fn inverse(&self, x: &BigUint) -> Option<BigUint> {
        if x.is_zero() {
            None
        } else {
            // p is prime: x^(p-2).
            Some(self.pow(x, &(&self.p - BigUint::from(2u32))))
        }
    }

    /// Order key of the signed representative in (-p/2, p/2].
    fn signed_key(&self, x: &BigUint) -> BigUint {
        (x + &self.half) % &self.p
    }

    pub fn is_true(&self, x: &BigUint) -> bool {
        !x.is_zero()
    }

    fn b(v: bool) -> BigUint {
        if v {
            BigUint::one()
        } else {
            BigUint::zero()
        }
    }

    fn shl(&self, a: &BigUint, k: &BigUint, depth: u32) -> Expect {
        if k <= &self.half {
            if k >= &BigUint::from(self.bits) {
                // All bits are shifted out of the mask.
                return Expect::ValueOrError(BigUint::zero());
            }
            let k = usize_of(k);
            Expect::Value(((a << k) & &self.mask) % &self.p)
        } else if depth == 0 {
            self.shr(a, &(&self.p - k), 1)
        } else {
            unreachable!("p - k <= p/2 when k > p/2")
        }
    }

    fn shr(&self, a: &BigUint, k: &BigUint, depth: u32) -> Expect {
        if k <= &self.half {
            if k >= &BigUint::from(self.bits) {
                return Expect::ValueOrError(BigUint::zero());
            }
            let k = usize_of(k);
            Expect::Value(a >> k)
        } else if depth == 0 {
            self.shl(a, &(&self.p - k), 1)
        } else {
            unreachable!("p - k <= p/2 when k > p/2")
        }
    }

    /// Operands must be canonical (in [0, p)).
    pub fn binop(&self, op: BinOp, a: &BigUint, b: &BigUint) -> Expect {
        use Expect::*;
        match op {
            BinOp::Add => Value((a + b) % &self.p),
            BinOp::Sub => Value((a + &self.p - b) % &self.p),
            BinOp::Mul => Value((a * b) % &self.p),
            BinOp::Pow => Value(self.pow(a, b)),
            BinOp::Div => match self.inverse(b) {
                Some(inv) => Value((a * inv) % &self.p),
                None => Error,
            },
            BinOp::IntDiv => {
                if b.is_zero() {
                    Error
                } else {
                    Value(a / b)
                }
            }
            BinOp::Mod => {
                if b.is_zero() {
                    Error
                } else {
                    Value(a % b)
                }
            }
            BinOp::ShiftL => self.shl(a, b, 0),
            BinOp::ShiftR => self.shr(a, b, 0),
            BinOp::Lesser => Value(Self::b(self.signed_key(a) < self.signed_key(b))),
            BinOp::Greater => Value(Self::b(self.signed_key(a) > self.signed_key(b))),
            BinOp::LesserEq => Value(Self::b(self.signed_key(a) <= self.signed_key(b))),
            BinOp::GreaterEq => Value(Self::b(self.signed_key(a) >= self.signed_key(b))),
            BinOp::Eq => Value(Self::b(a == b)),
            BinOp::NotEq => Value(Self::b(a != b)),
            BinOp::BoolOr => Value(Self::b(self.is_true(a) || self.is_true(b))),
            BinOp::BoolAnd => Value(Self::b(self.is_true(a) && self.is_true(b))),
            BinOp::BitOr => Value((a | b) % &self.p),
            BinOp::BitAnd => Value((a & b) % &self.p),
            BinOp::BitXor => Value((a ^ b) % &self.p),
        }
    }

    pub fn unop(&self, op: UnOp, a: &BigUint) -> Expect {
        match op {
            UnOp::Neg => Expect::Value((&self.p - a) % &self.p),
            UnOp::BoolNot => Expect::Value(Self::b(!self.is_true(a))),
            UnOp::Complement => {
                // 256-bit complement, reduced.
                let all = (BigUint::one() << 256usize) - BigUint::one();
                let low = a & &all;
                Expect::Value((all - low) % &self.p)
            }
        }
    }
}

pub fn usize_of(k: &BigUint) -> usize {
    let digits = k.to_bytes_le();
    let mut v: usize = 0;
    for (i, d) in digits.iter().enumerate() {
        if i >= 8 {
            assert_eq!(*d, 0, "value fits usize");
        } else {
            v |= (*d as usize) << (8 * i);
        }
    }
    v
}

pub fn to_bigint(x: &BigUint) -> BigInt {
    BigInt::from_biguint(Sign::Plus, x.clone())
}

pub const BN254: &str =
    "21888242871839275222246405745257275088548364400416034343698204186575808495617";
pub const BLS12_381: &str =
    "52435875175126190479447740508185965837690552500527637822603658699938581184513";
pub const GOLDILOCKS: &str = "18446744069414584321";

pub fn real_primes() -> Vec<(&'static str, BigUint)> {
    vec![
        ("BN254", BigUint::parse_bytes(BN254.as_bytes(), 10).unwrap()),
        ("BLS12_381", BigUint::parse_bytes(BLS12_381.as_bytes(), 10).unwrap()),
        ("GOLDILOCKS", BigUint::parse_bytes(GOLDILOCKS.as_bytes(), 10).unwrap()),
    ]
}

//! Reference comment automaton, written from the statement of C05: line comments end at the next
//! newline, block comments at the first following `*/`; everything else is code; an unclosed
//! block comment is an error. Works on bytes (comment delimiters are ASCII).

#[derive(Clone, Debug, PartialEq, Eq)]
pub enum Stripped {
    /// For every byte of the input: true if it belongs to a comment (delimiters included;
    /// the newline that ends a line comment is code).
    Ok(Vec<bool>),
    /// Byte offset of the opener of a block comment that is never closed.
    Unterminated(usize),
}

pub fn comment_mask(src: &[u8]) -> Stripped {
    #[derive(PartialEq)]
    enum S {
        Code,
        Line,
        Block,
    }
    let mut mask = vec![false; src.len()];
    let mut state = S::Code;
    let mut open = 0;
    let mut i = 0;
    while i < src.len() {
        match state {
            S::Code => {
                if src[i] == b'/' && i + 1 < src.len() && src[i + 1] == b'/' {
                    state = S::Line;
                    mask[i] = true;
                    mask[i + 1] = true;
                    i += 2;
                } else if src[i] == b'/' && i + 1 < src.len() && src[i + 1] == b'*' {
                    state = S::Block;
                    open = i;
                    mask[i] = true;
                    mask[i + 1] = true;
                    i += 2;
                } else {
                    i += 1;
                }
            }
            S::Line => {
                if src[i] == b'\n' {
                    state = S::Code;
                } else {
                    mask[i] = true;
                }
                i += 1;
            }
            S::Block => {
                if src[i] == b'*' && i + 1 < src.len() && src[i + 1] == b'/' {
                    mask[i] = true;
                    mask[i + 1] = true;
                    state = S::Code;
                    i += 2;
                } else {
                    mask[i] = true;
                    i += 1;
                }
            }
        }
    }
    if state == S::Block {
        Stripped::Unterminated(open)
    } else {
        Stripped::Ok(mask)
    }
}

/// Replaces every comment byte by a blank (newlines inside comments are kept).
pub fn blank_comments(src: &str) -> Option<String> {
    match comment_mask(src.as_bytes()) {
        Stripped::Ok(mask) => {
            let bytes: Vec<u8> = src
                .bytes()
                .zip(mask)
                .map(|(b, m)| if m && b != b'\n' { b' ' } else { b })
                .collect();
            String::from_utf8(bytes).ok()
        }
        Stripped::Unterminated(_) => None,
    }
}

//! vmc — bounded exhaustive exploration of circomspect against the fixed properties C01..C20.
//!
//!   vmc check <ID> --tier quick|thorough
//!   vmc replay <ID> <file>
//!   vmc worker <kind> <json>        (internal: isolated single-case execution)
mod infra;
mod props;
mod refsem;
mod space;
mod sut;

use infra::{Run, Tier};

fn usage() -> ! {
    eprintln!("usage: vmc check <ID> --tier quick|thorough | vmc replay <ID> <file> | vmc worker <kind> <json>");
    std::process::exit(2)
}

fn main() {
    infra::install_panic_hook();
    let args: Vec<String> = std::env::args().collect();
    if args.len() < 3 {
        usage();
    }
    match args[1].as_str() {
        "check" => {
            let id = args[2].clone();
            let mut tier = match std::env::var("VERIF_TIER").ok().as_deref() {
                Some("thorough") => Tier::Thorough,
                _ => Tier::Quick,
            };
            let mut i = 3;
            while i < args.len() {
                if args[i] == "--tier" && i + 1 < args.len() {
                    tier = match args[i + 1].as_str() {
                        "quick" => Tier::Quick,
                        "thorough" => Tier::Thorough,
                        _ => usage(),
                    };
                    i += 1;
                }
                i += 1;
            }
            let Some(entry) = props::lookup(&id) else {
                eprintln!("unknown property {id}");
                std::process::exit(2);
            };
            let run: &'static Run = Box::leak(Box::new(Run::new(&id, tier, entry.level)));
            let limit = std::env::var("VERIF_HANG_SECS").ok().and_then(|s| s.parse().ok()).unwrap_or(30);
            run.start_watchdog(limit);
            // A panic of the harness itself (not of the code under test, which is captured per
            // case) is a machinery failure, never a verdict.
            if std::panic::catch_unwind(std::panic::AssertUnwindSafe(|| (entry.run)(run))).is_err() {
                run.machinery_error("the harness panicked (see stderr); results are incomplete");
                run.cap("harness panic");
            }
            std::process::exit(run.finish());
        }
        "replay" => {
            if args.len() < 4 {
                usage();
            }
            // The replay itself runs in a child process under a deadline, so that a case that
            // hangs the code under test is reported instead of hanging the replay.
            let exe = std::env::current_exe().expect("current exe");
            let mut child = std::process::Command::new(exe)
                .arg("replay-inner")
                .arg(&args[2])
                .arg(&args[3])
                .spawn()
                .expect("spawn replay");
            let deadline = std::time::Instant::now() + std::time::Duration::from_secs(120);
            loop {
                match child.try_wait() {
                    Ok(Some(status)) => std::process::exit(status.code().unwrap_or(2)),
                    Ok(None) => {
                        if std::time::Instant::now() > deadline {
                            let _ = child.kill();
                            println!("VIOLATION property={} replay={}", args[2], args[3]);
                            println!("  observed: the code under test did not return within 120 s on this case");
                            std::process::exit(1);
                        }
                        std::thread::sleep(std::time::Duration::from_millis(20));
                    }
                    Err(_) => std::process::exit(2),
                }
            }
        }
        "replay-inner" => {
            let id = args[2].clone();
            let Some(entry) = props::lookup(&id) else {
                eprintln!("unknown property {id}");
                std::process::exit(2);
            };
            let text = std::fs::read_to_string(&args[3]).expect("read replay file");
            let v: serde_json::Value = serde_json::from_str(&text).expect("parse replay file");
            let case = &v["case"];
            // Replay twice; both observations must be identical before anything is reported.
            let first = (entry.replay)(case);
            let second = (entry.replay)(case);
            let show = |vs: &Vec<infra::Violation>| {
                vs.iter().map(|v| format!("{} :: {}", v.signature, v.observed)).collect::<Vec<_>>()
            };
            if show(&first) != show(&second) {
                eprintln!("MACHINERY-ERROR property={id} replay is not deterministic");
                std::process::exit(2);
            }
            if first.is_empty() {
                println!("replay: property {id} holds on this case");
                std::process::exit(0);
            }
            for v in &first {
                println!("VIOLATION property={} replay={}", id, args[3]);
                println!(
                    "  signature: {}\n  what: {}\n  expected: {}\n  observed: {}",
                    v.signature, v.what, v.expected, v.observed
                );
            }
            std::process::exit(1);
        }
        "dump" => {
            // vmc dump <file-with-one-definition> [curve]
            let src = std::fs::read_to_string(&args[2]).expect("read");
            let curve = sut::pipe::curve_of(args.get(3).map(|s| s.as_str()).unwrap_or("BN254"));
            match sut::pipe::lift(&src, &curve) {
                Ok((cfg, reports)) => {
                    print!("{}", props::cfgcheck::dump_cfg(&cfg));
                    println!("parameters: {:?}", cfg.parameters().iter().collect::<Vec<_>>());
                    let mut decls: Vec<String> = cfg
                        .declarations()
                        .iter()
                        .map(|(n, d)| format!("{n:?}:{}", d.variable_type()))
                        .collect();
                    decls.sort();
                    println!("declarations: {decls:?}");
                    for b in cfg.iter() {
                        for s in b.iter() {
                            println!("  stmt {s:?}  type={:?} value={:?} degree={:?}",
                                s.meta().type_knowledge().variable_type().map(|t| t.to_string()),
                                s.meta().value_knowledge().get_reduces_to(),
                                s.meta().degree_knowledge().degree());
                        }
                    }
                    for r in reports {
                        println!("cfg report: {} {}", r.id(), r.message());
                    }
                    match sut::pipe::run_passes(&cfg) {
                        Ok(rs) => {
                            for r in rs {
                                println!("report: {} [{}] {}", r.id(), r.category(), r.message());
                            }
                        }
                        Err(p) => println!("passes panicked: {}", p.signature()),
                    }
                }
                Err(sut::pipe::LiftError::NotParsed) => println!("not parsed"),
                Err(sut::pipe::LiftError::Rejected { stage, message }) => println!("rejected at {stage:?}: {message}"),
                Err(sut::pipe::LiftError::Panic { stage, info }) => println!("panic at {stage:?}: {}", info.signature()),
            }
        }
        "count" => {
            // vmc count <max_stmts> <depth> <for> <bare> <block> <empty>
            let a: Vec<usize> = args[2..].iter().map(|s| s.parse().unwrap()).collect();
            let o = space::skel::SkelOpts {
                max_stmts: a[0],
                max_depth: a[1],
                allow_for: a[2] != 0,
                allow_bare: a[3] != 0,
                allow_block: a[4] != 0,
                allow_empty_body: a[5] != 0,
            };
            println!("{}", space::skel::count(o));
        }
        "worker" => {
            if args.len() < 4 {
                usage();
            }
            sut::worker::worker_main(&args[2], &args[3]);
        }
        _ => usage(),
    }
}

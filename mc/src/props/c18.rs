//! C18 — tuples and anonymous components are desugared completely and faithfully.
//! Completeness: for every (statement form x sugared expression x context) program, after the
//! real `parse_files` no tuple / anonymous component / multi-substitution node remains in any
//! template body, a function containing sugar is absent, and whenever a definition is absent an
//! error was reported. Faithfulness: for the legal positions the findings of the sugared program
//! equal those of the hand-written expansion.
use super::c01::{program, CONTEXTS, STMT_FORMS};
use crate::infra::{catch, par_each, work_dir, Run, Tier, Violation};
use crate::space::tokens::definition_headers;
use crate::sut::runner::{self, finding_of};
use parser::ParseResult;
use program_structure::ast::{Access, Expression, LogArgument, Statement};
use program_structure::constants::Curve;
use program_structure::report::MessageCategory;
use serde_json::{json, Value};
use std::collections::BTreeMap;
use std::path::Path;

fn expr_has_sugar(e: &Expression) -> Option<&'static str> {
    use Expression::*;
    match e {
        Tuple { .. } => Some("tuple"),
        AnonymousComponent { .. } => Some("anonymous-component"),
        InfixOp { lhe, rhe, .. } => expr_has_sugar(lhe).or_else(|| expr_has_sugar(rhe)),
        PrefixOp { rhe, .. } | ParallelOp { rhe, .. } => expr_has_sugar(rhe),
        InlineSwitchOp { cond, if_true, if_false, .. } => {
            expr_has_sugar(cond).or_else(|| expr_has_sugar(if_true)).or_else(|| expr_has_sugar(if_false))
        }
        Variable { access, .. } => access.iter().find_map(|a| match a {
            Access::ArrayAccess(i) => expr_has_sugar(i),
            _ => None,
        }),
        Number(_, _) => None,
        Call { args, .. } => args.iter().find_map(expr_has_sugar),
        ArrayInLine { values, .. } => values.iter().find_map(expr_has_sugar),
    }
}

fn stmt_has_sugar(s: &Statement) -> Option<&'static str> {
    use Statement::*;
    match s {
        IfThenElse { cond, if_case, else_case, .. } => expr_has_sugar(cond)
            .or_else(|| stmt_has_sugar(if_case))
            .or_else(|| else_case.as_ref().and_then(|e| stmt_has_sugar(e))),
        While { cond, stmt, .. } => expr_has_sugar(cond).or_else(|| stmt_has_sugar(stmt)),
        Return { value, .. } => expr_has_sugar(value),
        InitializationBlock { initializations, .. } => initializations.iter().find_map(stmt_has_sugar),
        Declaration { dimensions, .. } => dimensions.iter().find_map(expr_has_sugar),
        Substitution { access, rhe, .. } => access
            .iter()
            .find_map(|a| match a {
                Access::ArrayAccess(i) => expr_has_sugar(i),
                _ => None,
            })
            .or_else(|| expr_has_sugar(rhe)),
        MultiSubstitution { .. } => Some("multi-substitution"),
        ConstraintEquality { lhe, rhe, .. } => expr_has_sugar(lhe).or_else(|| expr_has_sugar(rhe)),
        LogCall { args, .. } => args.iter().find_map(|a| match a {
            LogArgument::LogExp(e) => expr_has_sugar(e),
            _ => None,
        }),
        Block { stmts, .. } => stmts.iter().find_map(stmt_has_sugar),
        Assert { arg, .. } => expr_has_sugar(arg),
    }
}

pub const SUGAR_EXPRS: [&str; 16] = [
    "(x, y)",
    "(x, _, 7)",
    "((x, y), 7)",
    "T()(x)",
    "T()(x, y)",
    "T(1)(x, y)",
    "T()(in <== x, in2 <== y)",
    "T()(in2 <== y, in <== x)",
    "T()(in <-- x)",
    "T()(nosuch <== x, in2 <== y)",
    "parallel T()(x, y)",
    "T()(T()(x, y), y)",
    "T()((x, y), y)",
    "(T()(x, y), y)",
    "1 + T()(x, y)",
    "f(T()(x, y))",
];

/// Expression contexts a sugared expression can be nested in.
pub const EXPR_CONTEXTS: [&str; 18] = [
    "a[{s}]",
    "a[{s}][0]",
    "a[0][{s}]",
    "a[{s}][0][1]",
    "a[1][{s}][0]",
    "c.out[{s}]",
    "cs[{s}].out",
    "cs[{s}].out[0]",
    "f({s})",
    "f(1, {s})",
    "f({s}, 1)",
    "[{s}, 1]",
    "[1, {s}]",
    "{s} ? 1 : 2",
    "1 ? {s} : 2",
    "1 ? 2 : {s}",
    "-({s})",
    "2 * ({s})",
];

pub fn check_completeness(src: &str, dir: &Path, case: &Value) -> Vec<Violation> {
    let mut out = Vec::new();
    let files = runner::write_project(dir, &[("p.circom", src)]);
    let result = catch(|| parser::parse_files(&files, &[], &(2, 1, 4)));
    let result = match result {
        Ok(r) => r,
        Err(p) => {
            out.push(Violation { signature: p.signature(), what: "parse_files panicked".into(), case: case.clone(), expected: "no panic".into(), observed: format!("{}\n{src}", p.message) });
            return out;
        }
    };
    let (templates, functions, reports) = match result {
        ParseResult::Program(p, r) => (p.templates, p.functions, r),
        ParseResult::Library(l, r) => (l.templates, l.functions, r),
    };
    let errors = reports.iter().filter(|r| matches!(r.category(), MessageCategory::Error)).count();
    let mut push = |sig: String, what: String, expected: &str| {
        out.push(Violation { signature: sig, what, case: case.clone(), expected: expected.to_string(), observed: src.to_string() });
    };
    for (name, t) in &templates {
        if let Some(kind) = stmt_has_sugar(t.get_body()) {
            push(format!("sugar-remains/template/{kind}"), format!("template {name} handed to the analysis still contains a {kind}"), "templates are free of tuples and anonymous components");
        }
    }
    for (name, f) in &functions {
        if let Some(kind) = stmt_has_sugar(f.get_body()) {
            push(format!("sugar-remains/function/{kind}"), format!("function {name} containing a {kind} is not rejected"), "functions containing tuples or anonymous components are rejected");
        }
    }
    // A definition that was dropped must have produced an error.
    let headers = definition_headers(src);
    for (kind, name) in headers {
        let present = if kind == "template" { templates.contains_key(&name) } else { functions.contains_key(&name) };
        if !present && errors == 0 {
            push(format!("dropped-silently/{kind}"), format!("{kind} {name} was dropped but no error was reported"), "an error report for every dropped definition");
        }
    }
    out
}

// ---------------------------------------------------------------------------------------------
// Faithfulness

pub const PAIR_SUPPORT: &str = "pragma circom 2.1.0;\ntemplate T2(p) {\n    signal input in1;\n    signal input in2;\n    signal output out;\n    out <== in1 * in2 + p;\n}\ntemplate T1() {\n    signal input in;\n    signal output out;\n    out <== in + 1;\n}\ntemplate T3() {\n    signal input i1;\n    signal input i2;\n    signal input i3;\n    signal output out;\n    out <== i1 * i2 + i3;\n}\ntemplate TN() {\n    signal input in;\n    in * in === in;\n}\ntemplate TO2() {\n    signal input in;\n    signal output o1;\n    signal output o2;\n    o1 <== in;\n    o2 <== in + 1;\n}\ntemplate TZ() {\n    signal input zin;\n    signal input ain;\n    signal output zout;\n    signal output aout;\n    zout <== zin * 2;\n    aout <== ain + 1;\n}\n";

/// (name, sugared body, expanded body); both are the body of `template M(n)` after the common
/// prologue. `ANON` is the hand-chosen name of the component in the expansion.
pub fn pairs() -> Vec<(&'static str, String, String)> {
    let mut v: Vec<(&'static str, String, String)> = Vec::new();
    let mut add = |name: &'static str, sugar: &str, plain: &str| v.push((name, sugar.to_string(), plain.to_string()));
    add("tuple-assign-vars", "(x, y) = (a + 1, 7);", "x = a + 1;\n    y = 7;");
    add("tuple-assign-signals", "(s1, s2) <== (a * b, a + b);", "s1 <== a * b;\n    s2 <== a + b;");
    add("tuple-assign-arrow", "(s1, s2) <-- (a * b * a, a + b);", "s1 <-- a * b * a;\n    s2 <-- a + b;");
    add("tuple-skip-underscore", "(s1, _) <== (a * b, a + b);", "s1 <== a * b;");
    add("tuple-skip-underscore-first", "(_, s2, _) <== (a, a + b, b);", "s2 <== a + b;");
    add("tuple-declaration-var", "var (p, q) = (a + 1, 2);\n    s1 <== p + q;", "var p;\n    var q;\n    p = a + 1;\n    q = 2;\n    s1 <== p + q;");
    add("tuple-declaration-signal", "signal (u, w) <== (a * b, a);\n    s1 <== u + w;", "signal u;\n    signal w;\n    u <== a * b;\n    w <== a;\n    s1 <== u + w;");
    add("anon-positional", "s1 <== T2(n)(a, b);", "component ANON = T2(n);\n    ANON.in1 <== a;\n    ANON.in2 <== b;\n    s1 <== ANON.out;");
    add("anon-positional-arrow", "s1 <-- T2(n)(a, b);", "component ANON = T2(n);\n    ANON.in1 <== a;\n    ANON.in2 <== b;\n    s1 <-- ANON.out;");
    add("anon-named", "s1 <== T2(n)(in1 <== a, in2 <== b);", "component ANON = T2(n);\n    ANON.in1 <== a;\n    ANON.in2 <== b;\n    s1 <== ANON.out;");
    add("anon-named-reordered", "s1 <== T2(n)(in2 <== b, in1 <== a);", "component ANON = T2(n);\n    ANON.in1 <== a;\n    ANON.in2 <== b;\n    s1 <== ANON.out;");
    add("anon-named-arrow", "s1 <== T2(n)(in1 <-- a * a * b, in2 <== b);", "component ANON = T2(n);\n    ANON.in1 <-- a * a * b;\n    ANON.in2 <== b;\n    s1 <== ANON.out;");
    add("anon-single-named", "s1 <== T1()(in <== a);", "component ANON = T1();\n    ANON.in <== a;\n    s1 <== ANON.out;");
    add("anon-single-named-arrow", "s1 <== T1()(in <-- a * a * a);", "component ANON = T1();\n    ANON.in <-- a * a * a;\n    s1 <== ANON.out;");
    add("anon-two-outputs", "(s1, s2) <== TO2()(a);", "component ANON = TO2();\n    ANON.in <== a;\n    s1 <== ANON.o1;\n    s2 <== ANON.o2;");
    add("anon-two-outputs-skip", "(_, s2) <== TO2()(a);", "component ANON = TO2();\n    ANON.in <== a;\n    s2 <== ANON.o2;");
    add("anon-in-declaration", "signal u <== T1()(a);\n    s1 <== u;", "signal u;\n    component ANON = T1();\n    ANON.in <== a;\n    u <== ANON.out;\n    s1 <== u;");
    // A bare anonymous component statement is legal only for templates without outputs.
    add("anon-bare-statement-no-output", "TN()(a);", "component ANON = TN();\n    ANON.in <== a;");
    add("anon-parallel", "s1 <== parallel T1()(a);", "component ANON = parallel T1();\n    ANON.in <== a;\n    s1 <== ANON.out;");
    add("anon-in-branch", "if (n > 1) {\n        s1 <== T1()(a);\n    }", "component ANON;\n    if (n > 1) {\n        ANON = T1();\n        ANON.in <== a;\n        s1 <== ANON.out;\n    }");
    // Anonymous components in loop bodies: one instance per iteration.
    add(
        "anon-in-for-loop",
        "signal t[2];\n    for (var i = 0; i < 2; i++) {\n        t[i] <== T1()(a + i);\n    }\n    s1 <== t[0] + t[1];",
        "signal t[2];\n    component ANON[2];\n    for (var i = 0; i < 2; i++) {\n        ANON[i] = T1();\n        ANON[i].in <== a + i;\n        t[i] <== ANON[i].out;\n    }\n    s1 <== t[0] + t[1];",
    );
    add(
        "anon-in-while-loop",
        "signal t[2];\n    var j = 0;\n    while (j < 2) {\n        t[j] <-- T2(n)(in1 <-- a * a * b, in2 <== b);\n        j += 1;\n    }\n    s1 <== t[0] + t[1];",
        "signal t[2];\n    var j = 0;\n    component ANON[2];\n    while (j < 2) {\n        ANON[j] = T2(n);\n        ANON[j].in1 <-- a * a * b;\n        ANON[j].in2 <== b;\n        t[j] <-- ANON[j].out;\n        j += 1;\n    }\n    s1 <== t[0] + t[1];",
    );
    add(
        "anon-in-nested-loops",
        "signal t[2][2];\n    for (var i = 0; i < 2; i++) {\n        for (var k = 0; k < 2; k++) {\n            (t[i][k], _) <== TO2()(a + i + k);\n        }\n    }\n    s1 <== t[0][0] + t[1][1];",
        "signal t[2][2];\n    component ANON[2][2];\n    for (var i = 0; i < 2; i++) {\n        for (var k = 0; k < 2; k++) {\n            ANON[i][k] = TO2();\n            ANON[i][k].in <== a + i + k;\n            t[i][k] <== ANON[i][k].o1;\n        }\n    }\n    s1 <== t[0][0] + t[1][1];",
    );
    // Every order of the named inputs x every operator assignment, for two and three inputs.
    let ops = ["<==", "<--"];
    let args2 = ["a * a * b", "b"];
    for perm in [[0usize, 1], [1, 0]] {
        for opmask in 0..4usize {
            let op = |i: usize| ops[(opmask >> i) & 1];
            let named: Vec<String> = perm.iter().map(|i| format!("in{} {} {}", i + 1, op(*i), args2[*i])).collect();
            let sugar = format!("s1 <== T2(n)({});", named.join(", "));
            let plain = format!("component ANON = T2(n);\n    ANON.in1 {} {};\n    ANON.in2 {} {};\n    s1 <== ANON.out;", op(0), args2[0], op(1), args2[1]);
            v.push(("anon-named-2", sugar, plain));
        }
    }
    let args3 = ["a * a * b", "b", "a + b"];
    for perm in [[0usize, 1, 2], [0, 2, 1], [1, 0, 2], [1, 2, 0], [2, 0, 1], [2, 1, 0]] {
        for opmask in 0..8usize {
            let op = |i: usize| ops[(opmask >> i) & 1];
            let named: Vec<String> = perm.iter().map(|i| format!("i{} {} {}", i + 1, op(*i), args3[*i])).collect();
            let sugar = format!("s1 <== T3()({});", named.join(", "));
            let plain = format!(
                "component ANON = T3();\n    ANON.i1 {} {};\n    ANON.i2 {} {};\n    ANON.i3 {} {};\n    s1 <== ANON.out;",
                op(0), args3[0], op(1), args3[1], op(2), args3[2]
            );
            v.push(("anon-named-3", sugar, plain));
        }
    }
    // Product: assignment operator (both writing directions) x destination shape x source shape.
    // The expansion is generated from the same description.
    struct Source {
        text: &'static str,
        /// declaration and input wiring of the expansion
        setup: &'static str,
        values: &'static [&'static str],
    }
    let sources2 = [
        Source { text: "(a * b * a, a + b)", setup: "", values: &["a * b * a", "a + b"] },
        Source { text: "TO2()(a)", setup: "component ANON = TO2();\n    ANON.in <== a;\n    ", values: &["ANON.o1", "ANON.o2"] },
        Source { text: "parallel TO2()(a)", setup: "component ANON = parallel TO2();\n    ANON.in <== a;\n    ", values: &["ANON.o1", "ANON.o2"] },
        Source { text: "TO2()(in <-- a * a * a)", setup: "component ANON = TO2();\n    ANON.in <-- a * a * a;\n    ", values: &["ANON.o1", "ANON.o2"] },
        // inputs and outputs declared in an order that is not the alphabetical one
        Source { text: "TZ()(a * a, b)", setup: "component ANON = TZ();\n    ANON.zin <== a * a;\n    ANON.ain <== b;\n    ", values: &["ANON.zout", "ANON.aout"] },
        Source { text: "parallel TZ()(ain <-- b, zin <== a)", setup: "component ANON = parallel TZ();\n    ANON.zin <== a;\n    ANON.ain <-- b;\n    ", values: &["ANON.zout", "ANON.aout"] },
    ];
    let sources1 = [
        Source { text: "T2(n)(a, b)", setup: "component ANON = T2(n);\n    ANON.in1 <== a;\n    ANON.in2 <== b;\n    ", values: &["ANON.out"] },
        Source { text: "parallel T2(n)(a, b)", setup: "component ANON = parallel T2(n);\n    ANON.in1 <== a;\n    ANON.in2 <== b;\n    ", values: &["ANON.out"] },
        Source { text: "T2(n)(in2 <-- b, in1 <== a * a * b)", setup: "component ANON = T2(n);\n    ANON.in1 <== a * a * b;\n    ANON.in2 <-- b;\n    ", values: &["ANON.out"] },
        Source { text: "parallel T2(n)(in2 <-- b, in1 <== a * a * b)", setup: "component ANON = parallel T2(n);\n    ANON.in1 <== a * a * b;\n    ANON.in2 <-- b;\n    ", values: &["ANON.out"] },
        Source { text: "parallel T1()(in <-- a * a * a)", setup: "component ANON = parallel T1();\n    ANON.in <-- a * a * a;\n    ", values: &["ANON.out"] },
    ];
    let dests2: [(&str, [Option<&str>; 2]); 3] = [("(s1, s2)", [Some("s1"), Some("s2")]), ("(s1, _)", [Some("s1"), None]), ("(_, s2)", [None, Some("s2")])];
    for (op, plain_op, leftward) in [("<==", "<==", true), ("<--", "<--", true), ("==>", "<==", false), ("-->", "<--", false)] {
        let mut emit = |dest: &str, targets: &[Option<&str>], src: &Source| {
            let sugar = if leftward { format!("{dest} {op} {};", src.text) } else { format!("{} {op} {dest};", src.text) };
            let mut plain = src.setup.to_string();
            let lines: Vec<String> = targets.iter().zip(src.values.iter()).filter_map(|(t, v)| t.map(|t| format!("{t} {plain_op} {v};"))).collect();
            plain.push_str(&lines.join("\n    "));
            v.push(("operator-product", sugar, plain));
        };
        for (dest, targets) in &dests2 {
            for src in &sources2 {
                emit(dest, targets, src);
            }
        }
        for src in &sources1 {
            emit("s1", &[Some("s1")], src);
        }
    }
    let mut add = |name: &'static str, sugar: &str, plain: &str| v.push((name, sugar.to_string(), plain.to_string()));
    add("anon-expression-input", "s1 <== T2(n + 1)(a + b, a * b);", "component ANON = T2(n + 1);\n    ANON.in1 <== a + b;\n    ANON.in2 <== a * b;\n    s1 <== ANON.out;");
    v
}

pub fn pair_program(body: &str) -> String {
    format!("{PAIR_SUPPORT}template M(n) {{\n    signal input a;\n    signal input b;\n    signal output s1;\n    signal output s2;\n    var x = 0;\n    var y = 0;\n    {body}\n}}\n")
}

fn normalise_message(m: &str) -> String {
    // Generated component names look like `T2_19_412`; the expansion uses ANON.
    let mut out = String::new();
    let mut token = String::new();
    let flush = |token: &mut String, out: &mut String| {
        let parts: Vec<&str> = token.split('_').collect();
        let generated = parts.len() >= 3
            && parts[parts.len() - 1].chars().all(|c| c.is_ascii_digit())
            && parts[parts.len() - 2].chars().all(|c| c.is_ascii_digit())
            && !parts[parts.len() - 1].is_empty()
            && !parts[parts.len() - 2].is_empty();
        if generated || token == "ANON" {
            out.push_str("ANON");
        } else {
            out.push_str(token);
        }
        token.clear();
    };
    for c in m.chars() {
        if c.is_ascii_alphanumeric() || c == '_' {
            token.push(c);
        } else {
            flush(&mut token, &mut out);
            out.push(c);
        }
    }
    flush(&mut token, &mut out);
    out
}

fn findings_of(src: &str, dir: &Path) -> Result<BTreeMap<String, usize>, String> {
    let files = runner::write_project(dir, &[("p.circom", src)]);
    let mut loaded = runner::load(&files, &[], Curve::Bn254).map_err(|p| p.signature())?;
    let lib = loaded.runner.file_library().clone();
    let mut m = BTreeMap::new();
    for r in &loaded.parse_reports {
        let f = finding_of(r, &lib);
        *m.entry(format!("{} [{}] {}", f.id, f.level, normalise_message(&f.message))).or_insert(0) += 1;
    }
    let mut collector = runner::Collector::default();
    catch(|| loaded.runner.verif_analyze_template("M", &mut collector)).map_err(|p| p.signature())?;
    for r in &collector.reports {
        let f = finding_of(r, &lib);
        *m.entry(format!("{} [{}] {}", f.id, f.level, normalise_message(&f.message))).or_insert(0) += 1;
    }
    Ok(m)
}

pub fn check_pair(name: &str, sugar: &str, plain: &str, dir: &Path, case: &Value) -> Vec<Violation> {
    let mut out = Vec::new();
    let a = findings_of(&pair_program(sugar), &dir.join("s"));
    let b = findings_of(&pair_program(plain), &dir.join("p"));
    match (a, b) {
        (Ok(a), Ok(b)) => {
            if a != b {
                let mut diff = Vec::new();
                for (k, v) in &a {
                    if b.get(k) != Some(v) {
                        diff.push(format!("sugared x{v}, expansion x{}: {k}", b.get(k).copied().unwrap_or(0)));
                    }
                }
                for (k, v) in &b {
                    if !a.contains_key(k) {
                        diff.push(format!("sugared x0, expansion x{v}: {k}"));
                    }
                }
                // Every differing report id is part of the signature, so that a recorded
                // difference does not hide a new one on the same pair.
                let mut ids: Vec<String> = diff.iter().filter_map(|d| d.split(": ").nth(1)).filter_map(|s| s.split_whitespace().next()).map(String::from).collect();
                ids.sort();
                ids.dedup();
                let id = ids.join("+");
                out.push(Violation {
                    signature: format!("unfaithful/{name}/{id}"),
                    what: format!("the findings of `{sugar}` differ from those of its hand-written expansion"),
                    case: case.clone(),
                    expected: format!("{b:?}"),
                    observed: format!("{}\n--- sugared\n{}\n--- expansion\n{}", diff.join("\n"), pair_program(sugar), pair_program(plain)),
                });
            }
        }
        (Err(e), _) | (_, Err(e)) => out.push(Violation {
            signature: e,
            what: format!("analysis of pair {name} panicked"),
            case: case.clone(),
            expected: "both programs analysed".into(),
            observed: pair_program(sugar),
        }),
    }
    out
}

pub fn run(run: &Run) {
    run.set_rule(
        "completeness: 63 statement forms x 16 sugared expressions (tuples, nested tuples, anonymous \
         components positional / named / reordered / unknown name / `<--` input / parallel / nested / \
         inside arithmetic and call arguments) x 5 contexts (+ every pair of sugared expressions \
         combined), through the real parse_files; faithfulness: 21 legal uses, each \
         against its hand expansion; non-trivial = program accepted by the grammar",
    );
    let root = work_dir("c18");
    let mut exprs: Vec<String> = SUGAR_EXPRS.iter().map(|s| s.to_string()).collect();
    let _ = Tier::Quick;
    // Every sugared expression inside every expression context.
    for ctx in EXPR_CONTEXTS {
        for sugar in SUGAR_EXPRS {
            exprs.push(ctx.replace("{s}", sugar));
        }
    }
    {
        for a in SUGAR_EXPRS {
            for b in SUGAR_EXPRS.iter().take(8) {
                exprs.push(format!("({a}) + ({b})"));
                exprs.push(format!("({a}, {b})"));
                exprs.push(format!("T()({a}, {b})"));
            }
        }
    }
    let mut programs: Vec<(usize, usize, usize)> = Vec::new();
    for c in 0..CONTEXTS.len() {
        for s in 0..STMT_FORMS.len() {
            if c == 4 && s != 0 {
                continue;
            }
            for e in 0..exprs.len() {
                programs.push((c, s, e));
            }
        }
    }
    run.set_extra("completeness_programs", json!(programs.len()));
    par_each(&programs, |i, (c, s, e)| {
        let src = program(*c, STMT_FORMS[*s], &exprs[*e]);
        let case = json!({"kind": "completeness", "context": c, "stmt": STMT_FORMS[*s], "expr": exprs[*e]});
        run.watch(&case);
        let dir = root.join(format!("{:?}", std::thread::current().id()).replace(|c: char| !c.is_ascii_alphanumeric(), ""));
        let vs = check_completeness(&src, &dir, &case);
        run.eval(1);
        run.nontrivial(1);
        if i % 211 == 0 {
            run.outcome(&format!("completeness:violations={}", vs.len().min(2)));
            if run.want_sample() {
                run.sample(json!({"program": src}));
            }
        }
        run.violations(vs);
    });
    let all = pairs();
    run.set_extra("faithfulness_pairs", json!(all.len()));
    par_each(&all, |i, (name, sugar, plain)| {
        let case = json!({"kind": "pair", "name": name, "index": i});
        run.watch(&case);
        let vs = check_pair(name, sugar, plain, &root.join(format!("pair{i}")), &case);
        run.eval(1);
        run.nontrivial(1);
        run.outcome(&format!("pair:{}", if vs.is_empty() { "equal" } else { "differs" }));
        run.violations(vs);
    });
    let _ = std::fs::remove_dir_all(&root);
    run.assume("findings of a sugared program and its expansion are compared as multisets of (id, level, message) with generated component names normalised; label positions necessarily differ");
}

pub fn replay(case: &Value) -> Vec<Violation> {
    let root = work_dir("c18-replay");
    let out = match case["kind"].as_str() {
        Some("completeness") => {
            let src = program(case["context"].as_u64().unwrap_or(0) as usize, case["stmt"].as_str().unwrap_or("x = {e};"), case["expr"].as_str().unwrap_or("1"));
            check_completeness(&src, &root, case)
        }
        Some("pair") => {
            let all = pairs();
            match case["index"].as_u64().and_then(|i| all.get(i as usize)) {
                Some((n, s, p)) => check_pair(n, s, p, &root, case),
                None => Vec::new(),
            }
        }
        _ => Vec::new(),
    };
    let _ = std::fs::remove_dir_all(&root);
    out
}

//! Program spaces shared by the value/degree soundness checks (C06, C07, C20) and the audit
//! observers that compare every claim attached to an IR node with the concrete value of that
//! node in a run of the reference interpreter.
use crate::refsem::field::{Field, ALL_BINOPS, ALL_UNOPS};
use crate::refsem::interp::{Observer, Val};
use crate::space::prog::{Atom, Cond, Def, DefKind, Ev, Node, Role};
use crate::space::skel::{instantiate, Filler, Sk, SkelOpts};
use num_bigint_dig::BigUint;
use num_traits::{One, Zero};
use program_structure::ir::value_meta::ValueReduction;
use program_structure::ir::{Expression, Statement};

// ---------------------------------------------------------------------------------------------
// Value audit

#[derive(Clone, Debug)]
pub struct Mismatch {
    /// Root-cause coordinate: node kind / operator.
    pub coordinate: String,
    pub node: String,
    pub claimed: String,
    pub actual: String,
}

pub struct ValueAudit<'a> {
    pub field: &'a Field,
    /// Only the first mismatch of a run is the root cause; later ones are consequences.
    pub first: Option<Mismatch>,
    pub claims_checked: u64,
}

impl<'a> ValueAudit<'a> {
    pub fn new(field: &'a Field) -> ValueAudit<'a> {
        ValueAudit { field, first: None, claims_checked: 0 }
    }

    fn check(&mut self, claim: Option<&ValueReduction>, value: &Val, coordinate: impl Fn() -> String, node: impl Fn() -> String) {
        let Some(claim) = claim else { return };
        self.claims_checked += 1;
        if self.first.is_some() {
            return;
        }
        let ok = match (claim, value) {
            (ValueReduction::FieldElement { value: c }, Val::Num(v)) => &self.field.canon(c) == v,
            (ValueReduction::Boolean { value: c }, Val::Num(v)) => *c != v.is_zero(),
            (_, Val::Arr(_)) => false,
        };
        if !ok {
            self.first = Some(Mismatch {
                coordinate: coordinate(),
                node: node(),
                claimed: format!("{claim}"),
                actual: match value {
                    Val::Num(v) => format!("{v}"),
                    Val::Arr(_) => "an array".to_string(),
                },
            });
        }
    }
}

pub fn expr_coordinate(e: &Expression) -> String {
    use Expression::*;
    match e {
        InfixOp { infix_op, .. } => format!("InfixOp({infix_op})"),
        PrefixOp { prefix_op, .. } => format!("PrefixOp({prefix_op})"),
        SwitchOp { .. } => "SwitchOp".to_string(),
        Variable { .. } => "Variable".to_string(),
        Number(_, _) => "Number".to_string(),
        Call { .. } => "Call".to_string(),
        InlineArray { .. } => "InlineArray".to_string(),
        Access { .. } => "Access".to_string(),
        Update { .. } => "Update".to_string(),
        Phi { args, .. } => format!("Phi(args={})", args.len().min(3)),
    }
}

impl<'a> Observer for ValueAudit<'a> {
    fn undefined(&mut self, e: &Expression) {
        // A constant is attributed to a node whose evaluation is an error (0 / 0, x % 0, ...).
        if let Some(claim) = e.meta().value_knowledge().get_reduces_to() {
            self.claims_checked += 1;
            if self.first.is_none() {
                self.first = Some(Mismatch {
                    coordinate: format!("value/{}/undefined", expr_coordinate(e)),
                    node: format!("{e:?}"),
                    claimed: format!("{claim}"),
                    actual: "no value (the operation is an error for these operands)".to_string(),
                });
            }
        }
    }
    fn expr(&mut self, e: &Expression, value: &Val) {
        self.check(
            e.meta().value_knowledge().get_reduces_to(),
            value,
            || format!("value/{}", expr_coordinate(e)),
            || format!("{e:?}"),
        );
    }
    fn assigned(&mut self, stmt: &Statement, value: &Val) {
        if let Statement::Substitution { meta, rhe, .. } = stmt {
            if let Expression::Phi { meta: phi_meta, .. } = rhe {
                self.check(
                    phi_meta.value_knowledge().get_reduces_to(),
                    value,
                    || format!("value/{}", expr_coordinate(rhe)),
                    || format!("{stmt:?}"),
                );
            }
            if !matches!(rhe, Expression::Update { .. }) {
                self.check(
                    meta.value_knowledge().get_reduces_to(),
                    value,
                    || format!("value/Substitution[{}]", expr_coordinate(rhe)),
                    || format!("{stmt:?}"),
                );
            }
        }
    }
}

// ---------------------------------------------------------------------------------------------
// Operator table programs

/// The literal alphabet of the operator table, per prime.
pub fn literal_alphabet(f: &Field) -> Vec<BigUint> {
    let p = &f.p;
    let one = BigUint::one();
    let mut v: Vec<BigUint> = [0u64, 1, 2, 3, 253, 254, 255, 100_000_000_000]
        .iter()
        .map(|x| BigUint::from(*x))
        .collect();
    v.push(f.half.clone());
    v.push(&f.half + &one);
    v.push(p - BigUint::from(2u32));
    v.push(p - &one);
    v.push(&one << 64usize);
    v.push(&one << (f.bits - 2));
    v.retain(|x| x < p);
    v.sort();
    v.dedup();
    v
}

/// `var x = A; var y = B; var z = x op y;` plus uses of z in conditions and a return.
pub fn binop_program(op: &str, a: &BigUint, b: &BigUint) -> String {
    format!(
        "function f(n) {{\n    var x = {a};\n    var y = {b};\n    var z = x {op} y;\n    var w = 0;\n    if (z < y) {{\n        w = 1;\n    }}\n    if (z == x) {{\n        w = w + 2;\n    }}\n    if ((x {op} y) != z) {{\n        w = w + 4;\n    }}\n    return z + w;\n}}\n"
    )
}

pub fn unop_program(op: &str, a: &BigUint) -> String {
    format!(
        "function f(n) {{\n    var x = {a};\n    var z = {op}x;\n    var w = 0;\n    if (z == 0) {{\n        w = 1;\n    }}\n    if (({op}x) > x) {{\n        w = w + 2;\n    }}\n    return z + w;\n}}\n"
    )
}

pub fn ternary_program(c: &BigUint, a: &BigUint, b: &BigUint) -> String {
    format!(
        "function f(n) {{\n    var c = {c};\n    var x = {a};\n    var y = {b};\n    var z = c ? x : y;\n    var v = (x < y) ? x : y;\n    var w = 0;\n    if (z == v) {{\n        w = 1;\n    }}\n    return z + w + v;\n}}\n"
    )
}

/// Boolean connectives over comparison results.
pub fn bool_program(r1: &str, l: &str, r2: &str, a: &BigUint, b: &BigUint) -> String {
    format!(
        "function f(n) {{\n    var x = {a};\n    var y = {b};\n    var w = 0;\n    if ((x {r1} y) {l} (y {r2} x)) {{\n        w = 1;\n    }}\n    if (!(x {r1} y)) {{\n        w = w + 2;\n    }}\n    if ((x {r1} y) {l} (n > 0)) {{\n        w = w + 4;\n    }}\n    return w;\n}}\n"
    )
}

/// One operand unknown (a parameter in a function, an input signal in a template), the other
/// a literal: the shapes where absorbing / neutral element shortcuts would live.
/// `side` 0: unknown op literal, 1: literal op unknown; `template` picks the kind of unknown.
pub fn mixed_binop_program(op: &str, lit: &BigUint, side: usize, template: bool) -> String {
    let u = if template { "in" } else { "n" };
    let (l, r) = if side == 0 { (u.to_string(), "y".to_string()) } else { ("y".to_string(), u.to_string()) };
    let (l2, r2) = if side == 0 { (format!("({u} + 1)"), lit.to_string()) } else { (lit.to_string(), format!("({u} + 1)")) };
    let body = format!(
        "    var y = {lit};\n    var z = {l} {op} {r};\n    var w = 0;\n    if (z == y) {{\n        w = 1;\n    }}\n    if (({l} {op} {r}) != z) {{\n        w = w + 2;\n    }}\n    var t = {l2} {op} {r2};\n    if (t == 0) {{\n        w = w + 4;\n    }}\n"
    );
    if template {
        format!("template T(n) {{\n    signal input in;\n    signal output out;\n{body}    out <-- z + w + t;\n}}\n")
    } else {
        format!("function f(n) {{\n{body}    return z + w + t;\n}}\n")
    }
}

/// Prefix operators and ternaries with unknown parts. `pos` 0: unknown condition, 1: unknown
/// true branch, 2: unknown false branch, 3: `op unknown` for each prefix operator.
pub fn mixed_ternary_program(pos: usize, a: &BigUint, b: &BigUint, template: bool) -> String {
    let u = if template { "in" } else { "n" };
    let expr = match pos {
        0 => format!("{u} ? {a} : {b}"),
        1 => format!("{a} ? {u} : {b}"),
        2 => format!("{a} ? {b} : {u}"),
        _ => format!("(-{u}) + (!{u}) + (~{u}) + {a} * 0 + {b} * 0"),
    };
    let body = format!("    var z = {expr};\n    var w = 0;\n    if (z == {a}) {{\n        w = 1;\n    }}\n    if (({expr}) == {b}) {{\n        w = w + 2;\n    }}\n");
    if template {
        format!("template T(n) {{\n    signal input in;\n    signal output out;\n{body}    out <-- z + w;\n}}\n")
    } else {
        format!("function f(n) {{\n{body}    return z + w;\n}}\n")
    }
}

/// Negated *literals* (the minus sign applied to a number in the source), as operands of every
/// operator and of the prefix operators, directly and through a variable.
pub fn negated_literal_program(op: &str, a: &BigUint, b: &BigUint, side: usize) -> String {
    let (l, r) = if side == 0 { (format!("(-{a})"), b.to_string()) } else { (a.to_string(), format!("(-{b})")) };
    format!(
        "function f(n) {{\n    var z = {l} {op} {r};\n    var u = -{a};\n    var v = u {op} {b};\n    var w = 0;\n    if (z == v) {{\n        w = 1;\n    }}\n    if ((~(-{a})) == {b}) {{\n        w = w + 2;\n    }}\n    if (!(-{b})) {{\n        w = w + 4;\n    }}\n    return z + v + w + (-(-{a}));\n}}\n"
    )
}

pub fn binop_symbols() -> Vec<&'static str> {
    ALL_BINOPS.iter().map(|o| o.symbol()).collect()
}

pub fn unop_symbols() -> Vec<&'static str> {
    ALL_UNOPS.iter().map(|o| o.symbol()).collect()
}

pub const COMPARISONS: [&str; 6] = ["<", ">", "<=", ">=", "==", "!="];

// ---------------------------------------------------------------------------------------------
// Control-flow programs

pub const CF_ATOMS: usize = 7;
pub const CF_CONDS: usize = 4;

pub struct CfFiller {
    pub atoms: Vec<usize>,
    pub conds: Vec<usize>,
    pub ai: usize,
    pub ci: usize,
    pub loops: usize,
    pub is_function: bool,
}

impl Filler for CfFiller {
    fn atom(&mut self) -> Atom {
        let c = self.atoms.get(self.ai).copied().unwrap_or(0);
        self.ai += 1;
        match c {
            0 => Atom::assign("x", "1"),
            1 => Atom::assign("x", "x + 1"),
            2 => Atom::assign("y", "x"),
            3 => Atom::assign("x", "n"),
            4 => Atom::assign("u", "1"),
            5 => Atom::assign("y", "u * 2"),
            _ => {
                if self.is_function {
                    Atom::assign("x", "y * 2")
                } else {
                    Atom::new("s[x] <-- y", vec![Ev::Assign("s[x] <-- y".into())])
                }
            }
        }
    }
    fn cond(&mut self, _is_loop: bool) -> Cond {
        let c = self.conds.get(self.ci).copied().unwrap_or(0);
        self.ci += 1;
        match c {
            0 => Cond::new("n > 0"),
            1 => Cond::new("x == 1"),
            2 => Cond::new("u == 1"),
            _ => Cond::new("1 == 1"),
        }
    }
    fn for_header(&mut self) -> (Atom, Cond, Atom) {
        self.loops += 1;
        self.ci += 1;
        let v = format!("i{}", self.loops);
        (
            Atom::decl_var_init(&v, "0").with_idents(vec![(&v, Role::Decl)]),
            Cond::new(&format!("{v} < n")),
            Atom::new(&format!("{v}++"), vec![Ev::Assign(format!("{v} = {v} + 1"))]),
        )
    }
}

pub fn cf_def(skel: &[Sk], atoms: &[usize], conds: &[usize], is_function: bool) -> Def {
    let mut filler = CfFiller { atoms: atoms.to_vec(), conds: conds.to_vec(), ai: 0, ci: 0, loops: 0, is_function };
    let mut body = Vec::new();
    if !is_function {
        body.push(Node::Atom(Atom::new("signal input in", vec![Ev::Decl("signal input in".into())])));
        body.push(Node::Atom(Atom::new("signal output s[4]", vec![Ev::Decl("signal output s".into())])));
    }
    body.push(Node::Atom(Atom::decl_var_init("x", "0")));
    body.push(Node::Atom(Atom::decl_var_init("y", "0")));
    // Declared without initialiser (Circom default-initialises to 0), outside every loop.
    body.push(Node::Atom(Atom::decl_var("u")));
    body.extend(instantiate(skel, &mut filler));
    // Uses after the skeleton: conditions on every variable.
    body.push(Node::If {
        cond: Cond::new("u == 1"),
        then: crate::space::prog::Body::Braced(vec![Node::Atom(Atom::assign("y", "y + 1"))]),
        els: None,
    });
    body.push(Node::If {
        cond: Cond::new("x == y"),
        then: crate::space::prog::Body::Braced(vec![Node::Atom(Atom::assign("y", "y + 2"))]),
        els: None,
    });
    if is_function {
        body.push(Node::Atom(Atom::ret("x + y + u")));
    } else {
        let mut a = Atom::new("in === x + y + u", vec![Ev::ConstraintEq("in === x + y + u".into())]);
        a.span_includes_semi = true;
        body.push(Node::Atom(a));
    }
    Def {
        kind: if is_function { DefKind::Function } else { DefKind::Template },
        name: if is_function { "f".into() } else { "T".into() },
        params: vec!["n".into()],
        body,
    }
}

pub fn cf_opts(max_stmts: usize) -> SkelOpts {
    SkelOpts { max_stmts, max_depth: 3, allow_for: true, allow_bare: false, allow_block: false, allow_empty_body: false }
}

pub fn digits(mut i: usize, radix: usize, n: usize) -> Vec<usize> {
    (0..n)
        .map(|_| {
            let d = i % radix;
            i /= radix;
            d
        })
        .collect()
}

/// Parameter valuations over {0, 1, 2, p-1}.
pub fn param_values(f: &Field) -> Vec<BigUint> {
    vec![BigUint::zero(), BigUint::one(), BigUint::from(2u32), &f.p - BigUint::one()]
}

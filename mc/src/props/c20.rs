//! C20 — cutting propagation short never makes a claim wrong. For every program of the C06 / C07
//! spaces the fix-point pass counts (Pv, Pd) are learned with an unlimited budget (hook H2), then
//! SSA conversion is re-run with every pass budget 0..=Pv for values (degrees unlimited) and
//! 0..=Pd for degrees (values unlimited). At every cut: conversion returns, every analysis pass
//! runs without panic, and the C06 / C07 oracles hold for all knowledge attached so far.
use super::valspace::*;
use super::{c06, c07};
use crate::infra::{par_each, Run, Tier, Violation};
use crate::refsem::field::{real_primes, Field};
use crate::space::prog::print_def;
use crate::space::skel::enumerate;
use crate::sut::pipe::{self, LiftError};
use program_structure::cfg::verif as budget;
use program_structure::constants::Curve;
use serde_json::{json, Value};

pub struct CutStats {
    pub cuts: u64,
    pub passes: u64,
    pub lifted: bool,
    pub pv: usize,
    pub pd: usize,
}

/// `degree_oracle`: also run the degree audit at degree cuts (program space of C07).
pub fn check_source(src: &str, field: &Field, case: &Value, degree_oracle: bool, params_vary: bool) -> (Vec<Violation>, CutStats) {
    let mut out = Vec::new();
    let mut stats = CutStats { cuts: 0, passes: 0, lifted: false, pv: 0, pd: 0 };
    let curve = Curve::Bn254;
    budget::set_budgets(None, None);
    let def = match pipe::parse(src) {
        Ok(Some(def)) => def,
        _ => return (out, stats),
    };
    // Learn the pass counts.
    let full = match pipe::to_cfg(&def, &curve).and_then(|(cfg, _)| pipe::to_ssa(cfg)) {
        Ok(cfg) => cfg,
        Err(_) => return (out, stats),
    };
    drop(full);
    let (pv, pd) = budget::passes();
    stats.lifted = true;
    stats.pv = pv;
    stats.pd = pd;
    let mut cuts: Vec<(Option<usize>, Option<usize>)> = Vec::new();
    for b in 0..=pv {
        cuts.push((Some(b), None));
    }
    for b in 0..=pd {
        cuts.push((None, Some(b)));
    }
    for (bv, bd) in cuts {
        budget::set_budgets(bv, bd);
        let mut c = case.clone();
        c["value_budget"] = json!(bv);
        c["degree_budget"] = json!(bd);
        let tag = match (bv, bd) {
            (Some(_), _) => "@value-cut",
            _ => "@degree-cut",
        };
        let lifted = pipe::to_cfg(&def, &curve).and_then(|(cfg, _)| pipe::to_ssa(cfg));
        let ran = budget::passes();
        budget::set_budgets(None, None);
        stats.cuts += 1;
        stats.passes += (ran.0 + ran.1) as u64;
        let cfg = match lifted {
            Ok(cfg) => cfg,
            Err(LiftError::Panic { stage, info }) => {
                out.push(Violation {
                    signature: format!("{}{tag}", info.signature()),
                    what: format!("SSA conversion panics at stage {stage:?} when propagation is cut at values={bv:?} degrees={bd:?}"),
                    case: c,
                    expected: "conversion completes at every cut".into(),
                    observed: format!("{}:{} {}\n{src}", info.file, info.line, info.message),
                });
                break;
            }
            Err(_) => {
                out.push(Violation {
                    signature: format!("rejected{tag}"),
                    what: format!("SSA conversion fails when propagation is cut at values={bv:?} degrees={bd:?} although it succeeds at the fix-point"),
                    case: c,
                    expected: "conversion completes at every cut".into(),
                    observed: src.to_string(),
                });
                break;
            }
        };
        // The budget really was honoured.
        if let Some(b) = bv {
            if ran.0 > b {
                out.push(Violation {
                    signature: "MACHINERY-budget-not-honoured".into(),
                    what: format!("value budget {b} but {} passes ran", ran.0),
                    case: c.clone(),
                    expected: format!("<= {b} passes"),
                    observed: format!("{}", ran.0),
                });
            }
        }
        // Every analysis pass completes.
        if let Err(p) = pipe::run_passes(&cfg) {
            out.push(Violation {
                signature: format!("{}{tag}", p.signature()),
                what: format!("an analysis pass panics on knowledge cut at values={bv:?} degrees={bd:?}"),
                case: c.clone(),
                expected: "all passes complete at every cut".into(),
                observed: format!("{}:{} {}\n{src}", p.file, p.line, p.message),
            });
            break;
        }
        let mut found = Vec::new();
        if bv.is_some() {
            found = c06::audit_cfg(&cfg, field, src, &c, "").violations;
        }
        if bd.is_some() && degree_oracle {
            found = c07::audit_cfg(&cfg, field, src, &c, params_vary, "").violations;
        }
        if !found.is_empty() {
            // Is the same claim also wrong at the fix-point (then it is C06/C07's defect showing
            // through), or only because propagation stopped here?
            budget::set_budgets(None, None);
            let at_fixpoint: Vec<String> = match pipe::to_cfg(&def, &curve).and_then(|(cfg, _)| pipe::to_ssa(cfg)) {
                Ok(full) => {
                    let vs = if bv.is_some() {
                        c06::audit_cfg(&full, field, src, &c, "").violations
                    } else {
                        c07::audit_cfg(&full, field, src, &c, params_vary, "").violations
                    };
                    vs.into_iter().map(|v| v.signature).collect()
                }
                Err(_) => Vec::new(),
            };
            for mut v in found {
                let suffix = if at_fixpoint.contains(&v.signature) { "+also-at-fixpoint" } else { "+cut-only" };
                v.signature = format!("{}{tag}{suffix}", v.signature);
                out.push(v);
            }
            break;
        }
    }
    budget::set_budgets(None, None);
    (out, stats)
}

fn account(run: &Run, stats: &CutStats, violations: Vec<Violation>, key: usize, src: &str) {
    run.eval(1);
    if stats.lifted {
        run.add_states(stats.cuts);
        run.add_transitions(stats.passes);
        run.add_traces(stats.cuts);
        if stats.pv >= 2 || stats.pd >= 2 {
            run.nontrivial(1);
        }
        if key % 257 == 0 {
            run.outcome(&format!("Pv={},Pd={}", stats.pv.min(40), stats.pd.min(40)));
            if run.want_sample() && stats.pv > 3 {
                run.sample(json!({"program": src, "value_passes_to_fixpoint": stats.pv, "degree_passes_to_fixpoint": stats.pd,
                    "cuts_explored": stats.cuts}));
            }
        }
    } else {
        run.outcome("not-lifted");
    }
    run.violations(violations);
}

pub fn run(run: &Run) {
    run.set_rule(
        "programs of the C06 operator table (a slice), the C06 control-flow sweep and the C07 table \
         and merging sweeps; for each program every value budget 0..=Pv and every degree budget \
         0..=Pd (Pv, Pd = passes to the fix-point, learned with an unlimited budget); states = \
         (program, kind, cut index), transitions = propagation passes executed; thorough also runs the production binary on a template large enough for the real ten-second time box to fire; non-trivial = the \
         fix-point needs at least two passes",
    );
    let (_, p) = real_primes().into_iter().next().unwrap();
    let field = Field::new(&p);
    // (1) C06 operator table, BN254: every k-th case.
    let alphabet = literal_alphabet(&field);
    let cases = c06::table_cases(alphabet.len(), run.tier);
    let step = run.tier.pick(9, 2);
    let slice: Vec<&c06::TableCase> = cases.iter().step_by(step).collect();
    run.set_extra("value_table_programs", json!(slice.len()));
    par_each(&slice, |i, tc| {
        let src = c06::table_source(tc, &alphabet);
        let mut case = c06::table_case_json(tc, "BN254");
        case["space"] = json!("c06-table");
        run.watch(&case);
        let (vs, stats) = check_source(&src, &field, &case, false, false);
        account(run, &stats, vs, i, &src);
    });
    // (2) C06 control flow.
    let max = run.tier.pick(2, 3);
    let skels = enumerate(cf_opts(max));
    run.set_extra("cf_skeletons", json!(skels.len()));
    par_each(&skels, |i, skel| {
        let na: usize = skel.iter().map(|s| s.atoms()).sum();
        let nc: usize = skel.iter().map(|s| s.conds()).sum();
        for ac in 0..CF_ATOMS.pow(na as u32) {
            let atoms = digits(ac, CF_ATOMS, na);
            for cc in 0..CF_CONDS.pow(nc as u32) {
                let conds = digits(cc, CF_CONDS, nc);
                for is_function in [true, false] {
                    let case = json!({"space": "c06-cf", "kind": "cf", "curve": "BN254", "max_stmts": max, "index": i,
                        "atoms": atoms, "conds": conds, "function": is_function});
                    let src = print_def(&cf_def(skel, &atoms, &conds, is_function)).text;
                    run.watch(&case);
                    let (vs, stats) = check_source(&src, &field, &case, false, false);
                    account(run, &stats, vs, i + ac + cc, &src);
                }
            }
        }
    });
    // (3) C07 operator table (depth 1).
    let mut table: Vec<(bool, String)> = Vec::new();
    table.extend(c07::table_exprs(false, false).into_iter().map(|e| (false, e)));
    table.extend(c07::table_exprs(false, true).into_iter().map(|e| (true, e)));
    let step = run.tier.pick(7, 1);
    let slice: Vec<&(bool, String)> = table.iter().step_by(step).collect();
    run.set_extra("degree_table_programs", json!(slice.len()));
    par_each(&slice, |i, (function, e)| {
        let (form, src) = if *function { ("function", c07::function_with(e)) } else { ("template", c07::template_with(e)) };
        let case = json!({"space": "c07-table", "kind": "table", "expr": e, "form": form});
        run.watch(&case);
        let (vs, stats) = check_source(&src, &field, &case, true, *function);
        account(run, &stats, vs, i, &src);
    });
    // (4) C07 merging sweep.
    let max = run.tier.pick(2, 3);
    let skels = enumerate(cf_opts(max));
    run.set_extra("merge_skeletons", json!(skels.len()));
    par_each(&skels, |i, skel| {
        let na: usize = skel.iter().map(|s| s.atoms()).sum();
        let nc: usize = skel.iter().map(|s| s.conds()).sum();
        for ac in 0..c07::MG_ATOMS.pow(na as u32) {
            let atoms = digits(ac, c07::MG_ATOMS, na);
            for cc in 0..c07::MG_CONDS.pow(nc as u32) {
                let conds = digits(cc, c07::MG_CONDS, nc);
                let case = json!({"space": "c07-merge", "kind": "merge", "max_stmts": max, "index": i, "atoms": atoms, "conds": conds});
                let src = print_def(&c07::merge_def(skel, &atoms, &conds)).text;
                run.watch(&case);
                let (vs, stats) = check_source(&src, &field, &case, true, false);
                account(run, &stats, vs, i + ac + cc, &src);
            }
        }
    });
    // The production time box itself (thorough): a template large enough for both propagation
    // loops to exceed their ten seconds must still end with a summary line. The hook stops the
    // loops next to the elapsed-time test; this run takes the real exit.
    if run.tier == Tier::Thorough {
        run.idle();
        for n in [6000usize, 12000] {
            let case = json!({"kind": "real-time-box", "statements": n});
            run.eval(1);
            run.nontrivial(1);
            let (vs, fired) = check_real_time_box(n, &case);
            run.outcome(&format!("real-time-box:n={n}:fired={fired}"));
            run.set_extra("real_time_box", json!({"statements": n, "fired": fired}));
            run.violations(vs);
            if fired {
                break;
            }
            if n == 12000 {
                run.cap("the real time box did not fire on a 12000-statement template (machine too fast); only the hook path was explored");
            }
        }
    }
    if run.tier == Tier::Quick {
        run.assume("quick tier explores a slice of the operator tables (every 9th / 7th program); thorough explores every 2nd / every program");
    }
    run.assume("budget 0 (no pass at all) is included although the real time box can only fire after a pass");
}

/// Runs the production binary on a template with `n` dependent assignments. Returns the
/// violations and whether the time box fired (debug log line).
pub fn check_real_time_box(n: usize, case: &Value) -> (Vec<Violation>, bool) {
    let dir = crate::infra::work_dir("c20-timebox");
    let mut src = String::from("pragma circom 2.0.0;\ntemplate Big() {\n    signal input in;\n    signal output out;\n    var x = 1;\n");
    for i in 0..n {
        src.push_str(&format!("    x = x * {} + {};\n", i % 7 + 2, i % 5));
    }
    src.push_str("    out <== in * x;\n}\n");
    std::fs::write(dir.join("big.circom"), &src).expect("write");
    std::env::set_var("VERIF_CHILD_RUST_LOG", "debug");
    let run = crate::sut::bin::run_bin(&crate::sut::bin::BinOpts {
        args: vec!["big.circom".into()],
        cwd: &dir,
        hash_seed: Some(1),
        timeout: std::time::Duration::from_secs(180),
        sarif_file: None,
        mem_limit: Some(8 << 30),
    });
    std::env::remove_var("VERIF_CHILD_RUST_LOG");
    let fired = run.stderr.contains("within allotted time") || run.stdout.contains("within allotted time");
    let mut out = Vec::new();
    let ok = !run.timed_out && run.killed_by_signal.is_none() && !run.panicked() && matches!(run.exit, Some(0) | Some(1)) && run.summary.is_some();
    if !ok {
        out.push(Violation {
            signature: format!("real-time-box/{}", if run.timed_out { "does-not-complete".to_string() } else { run.panic_signature().unwrap_or_else(|| format!("exit-{:?}", run.exit)) }),
            what: format!("a template with {n} dependent assignments (propagation is cut short by the time box: {fired}) does not end normally"),
            case: case.clone(),
            expected: "exit status 0 or 1 after the summary line".into(),
            observed: crate::infra::truncate(&run.stderr, 500),
        });
    }
    let _ = std::fs::remove_dir_all(&dir);
    (out, fired)
}

pub fn replay(case: &Value) -> Vec<Violation> {
    if case["kind"].as_str() == Some("real-time-box") {
        return check_real_time_box(case["statements"].as_u64().unwrap_or(6000) as usize, case).0;
    }
    let (_, p) = real_primes().into_iter().next().unwrap();
    let field = Field::new(&p);
    let get = |k: &str| -> Vec<usize> {
        case[k].as_array().map(|a| a.iter().map(|v| v.as_u64().unwrap_or(0) as usize).collect()).unwrap_or_default()
    };
    match case["space"].as_str() {
        Some("c06-table") => {
            let alphabet = literal_alphabet(&field);
            match c06::table_case_from_json(case) {
                Some(tc) => check_source(&c06::table_source(&tc, &alphabet), &field, case, false, false).0,
                None => Vec::new(),
            }
        }
        Some("c06-cf") => {
            let max = case["max_stmts"].as_u64().unwrap_or(2) as usize;
            let skels = enumerate(cf_opts(max));
            match skels.get(case["index"].as_u64().unwrap_or(0) as usize) {
                Some(skel) => {
                    let def = cf_def(skel, &get("atoms"), &get("conds"), case["function"].as_bool().unwrap_or(true));
                    check_source(&print_def(&def).text, &field, case, false, false).0
                }
                None => Vec::new(),
            }
        }
        Some("c07-table") => {
            let e = case["expr"].as_str().unwrap_or("in");
            let function = case["form"].as_str() == Some("function");
            let src = if function { c07::function_with(e) } else { c07::template_with(e) };
            check_source(&src, &field, case, true, function).0
        }
        Some("c07-merge") => {
            let max = case["max_stmts"].as_u64().unwrap_or(2) as usize;
            let skels = enumerate(cf_opts(max));
            match skels.get(case["index"].as_u64().unwrap_or(0) as usize) {
                Some(skel) => {
                    let src = print_def(&c07::merge_def(skel, &get("atoms"), &get("conds"))).text;
                    check_source(&src, &field, case, true, false).0
                }
                None => Vec::new(),
            }
        }
        _ => Vec::new(),
    }
}

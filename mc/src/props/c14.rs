//! C14 — SSA form is valid and preserves which assignment each read sees: a static audit
//! (single definition, dominance, phi placement, declarations) plus a path exploration that
//! keeps, per variable, the version written last and compares it with the version each read names.
use crate::infra::{par_each, Run, Violation};
use crate::refsem::dom::{dominance, Dominance};
use crate::refsem::walk::is_phi;
use crate::space::prog::{print_def, Atom, Cond, Def, DefKind, Ev, Node, Role};
use crate::space::skel::{enumerate, instantiate, Filler, Sk, SkelOpts};
use crate::sut::pipe::{self, LiftError};
use program_structure::cfg::Cfg;
use program_structure::constants::Curve;
use program_structure::ir::{AccessType, Expression, LogArgument, Statement, VariableName, VariableType};
use serde_json::{json, Value};
use std::collections::{HashMap, HashSet};

use super::cfgcheck::{dump_cfg, graph_of_cfg};

type Key = (String, Option<String>);

fn key(name: &VariableName) -> Key {
    (name.name().clone(), name.suffix().clone())
}

/// Versioned reads of an expression (phi arguments excluded).
fn expr_reads<'a>(e: &'a Expression, out: &mut Vec<&'a VariableName>) {
    use Expression::*;
    match e {
        InfixOp { lhe, rhe, .. } => {
            expr_reads(lhe, out);
            expr_reads(rhe, out);
        }
        PrefixOp { rhe, .. } => expr_reads(rhe, out),
        SwitchOp { cond, if_true, if_false, .. } => {
            expr_reads(cond, out);
            expr_reads(if_true, out);
            expr_reads(if_false, out);
        }
        Variable { name, .. } => out.push(name),
        Number(_, _) => {}
        Call { args, .. } => args.iter().for_each(|a| expr_reads(a, out)),
        InlineArray { values, .. } => values.iter().for_each(|a| expr_reads(a, out)),
        Access { var, access, .. } => {
            out.push(var);
            for a in access {
                if let AccessType::ArrayAccess(i) = a {
                    expr_reads(i, out);
                }
            }
        }
        Update { var, access, rhe, .. } => {
            expr_reads(rhe, out);
            for a in access {
                if let AccessType::ArrayAccess(i) = a {
                    expr_reads(i, out);
                }
            }
            out.push(var);
        }
        Phi { .. } => {}
    }
}

/// All variable names read by a statement, in evaluation order (before the write).
pub fn stmt_reads(s: &Statement) -> Vec<&VariableName> {
    let mut out = Vec::new();
    match s {
        Statement::Declaration { dimensions, .. } => dimensions.iter().for_each(|d| expr_reads(d, &mut out)),
        Statement::IfThenElse { cond, .. } => expr_reads(cond, &mut out),
        Statement::Return { value, .. } => expr_reads(value, &mut out),
        Statement::Substitution { rhe, .. } => expr_reads(rhe, &mut out),
        Statement::ConstraintEquality { lhe, rhe, .. } => {
            expr_reads(lhe, &mut out);
            expr_reads(rhe, &mut out);
        }
        Statement::LogCall { args, .. } => {
            for a in args {
                if let LogArgument::Expr(e) = a {
                    expr_reads(e, &mut out);
                }
            }
        }
        Statement::Assert { arg, .. } => expr_reads(arg, &mut out),
    }
    out
}

struct SsaInfo {
    /// (key, version) -> (block, statement index) of the defining statement(s).
    defs: HashMap<(Key, usize), Vec<(usize, usize)>>,
    locals: HashSet<Key>,
    params: HashSet<Key>,
    dom: Dominance,
}

fn local_keys(cfg: &Cfg) -> HashSet<Key> {
    let mut locals = HashSet::new();
    for (name, decl) in cfg.declarations().iter() {
        if matches!(decl.variable_type(), VariableType::Local) {
            locals.insert(key(name));
        }
    }
    locals
}

fn analyse(cfg: &Cfg) -> SsaInfo {
    let locals = local_keys(cfg);
    let params: HashSet<Key> = cfg.parameters().iter().map(key).collect();
    let mut defs: HashMap<(Key, usize), Vec<(usize, usize)>> = HashMap::new();
    for block in cfg.iter() {
        for (i, stmt) in block.iter().enumerate() {
            if let Statement::Substitution { var, .. } = stmt {
                if let Some(v) = var.version() {
                    defs.entry((key(var), *v)).or_default().push((block.index(), i));
                }
            }
        }
    }
    let dom = dominance(&graph_of_cfg(cfg));
    SsaInfo { defs, locals, params, dom }
}

pub fn static_audit(cfg: &Cfg, src: &str, case: &Value) -> Vec<Violation> {
    let mut out = Vec::new();
    let info = analyse(cfg);
    let mut push = |sig: &str, what: String, expected: &str| {
        out.push(Violation {
            signature: format!("static/{sig}"),
            what,
            case: case.clone(),
            expected: expected.to_string(),
            observed: format!("{src}\n{}", dump_cfg(cfg)),
        });
    };
    // 1. at most one defining statement per version.
    for ((k, v), sites) in &info.defs {
        if sites.len() > 1 {
            push(
                "multiple-definitions",
                format!("{}{:?}.{v} is assigned by {} statements", k.0, k.1, sites.len()),
                "at most one defining statement per versioned local",
            );
        }
    }
    let declared: HashSet<&VariableName> = cfg.declarations().iter().map(|(n, _)| n).collect();
    for block in cfg.iter() {
        let b = block.index();
        let mut seen_non_phi = false;
        for (i, stmt) in block.iter().enumerate() {
            // 2. phi statements only at the head of blocks.
            if is_phi(stmt) {
                if seen_non_phi {
                    push(
                        "phi-not-at-head",
                        format!("block {b}: phi statement after an ordinary statement"),
                        "phi statements stand only at the head of blocks",
                    );
                }
            } else {
                seen_non_phi = true;
            }
            // written variable: signals/components unversioned, locals versioned and declared.
            if let Statement::Substitution { var, rhe, .. } = stmt {
                let is_local = info.locals.contains(&key(var));
                match (is_local, var.version()) {
                    (true, None) => push(
                        "local-unversioned",
                        format!("block {b}: local `{var:?}` is written without a version"),
                        "every local is versioned",
                    ),
                    (false, Some(_)) => push(
                        "nonlocal-versioned",
                        format!("block {b}: signal/component `{var:?}` carries a version"),
                        "signals and components are left unversioned",
                    ),
                    _ => {}
                }
                if var.version().is_some() && !declared.contains(var) {
                    push(
                        "undeclared-version",
                        format!("block {b}: written version `{var:?}` is not covered by a declaration"),
                        "every version is covered by a declaration",
                    );
                }
                // phi arguments: defined on an incoming path.
                if let Expression::Phi { args, .. } = rhe {
                    for arg in args {
                        if key(arg) != key(var) {
                            push(
                                "phi-foreign-argument",
                                format!("block {b}: phi for `{var:?}` lists `{arg:?}`"),
                                "phi arguments are versions of the same variable",
                            );
                        }
                        // An unversioned argument stands for "not assigned on that incoming path".
                        let Some(v) = arg.version() else { continue };
                        if !declared.contains(arg) {
                            push(
                                "undeclared-version",
                                format!("block {b}: phi argument `{arg:?}` is not covered by a declaration"),
                                "every version is covered by a declaration",
                            );
                        }
                        let sites = info.defs.get(&(key(arg), *v));
                        let ok = match sites {
                            None => info.params.contains(&key(arg)) && *v == 0,
                            Some(sites) => sites.iter().any(|(db, _)| {
                                block.predecessors().iter().any(|p| info.dom.dom[*p] >> db & 1 == 1)
                            }),
                        };
                        if !ok {
                            push(
                                "phi-argument-not-on-incoming-path",
                                format!("block {b}: phi argument `{arg:?}` is not defined on any incoming path"),
                                "each phi argument is defined on an incoming path",
                            );
                        }
                    }
                }
            }
            // 3. reads are dominated by their definition.
            for name in stmt_reads(stmt) {
                let k = key(name);
                let is_local = info.locals.contains(&k);
                match (is_local, name.version()) {
                    (true, None) => push(
                        "local-unversioned",
                        format!("block {b}: local `{name:?}` is read without a version"),
                        "every local is versioned",
                    ),
                    (false, Some(_)) => push(
                        "nonlocal-versioned",
                        format!("block {b}: signal/component `{name:?}` carries a version"),
                        "signals and components are left unversioned",
                    ),
                    (true, Some(v)) => {
                        if !declared.contains(name) {
                            push(
                                "undeclared-version",
                                format!("block {b}: read version `{name:?}` is not covered by a declaration"),
                                "every version is covered by a declaration",
                            );
                        }
                        if let Some(sites) = info.defs.get(&(k.clone(), *v)) {
                            let dominated = sites.iter().any(|(db, di)| {
                                if *db == b {
                                    *di < i
                                } else {
                                    info.dom.dom[b] >> db & 1 == 1
                                }
                            });
                            if !dominated {
                                push(
                                    "read-not-dominated",
                                    format!("block {b}: read of `{name:?}` is not dominated by its definition"),
                                    "every read of a versioned local is dominated by its definition",
                                );
                            }
                        }
                        // A version without defining statement is judged by the path walk
                        // (it must stand for "never assigned on this path").
                    }
                    (false, None) => {}
                }
            }
        }
    }
    out
}

#[derive(Clone, Copy, PartialEq, Eq, Debug)]
enum Cur {
    Version(usize),
    /// Written by a phi that lists no argument for the path taken.
    PhiWithoutArgument(usize),
}

pub struct WalkStats {
    pub paths: usize,
    pub transitions: usize,
    pub states: usize,
    pub capped: bool,
}

/// Depth-first over all paths of the SSA graph with at most `unroll` + 1 visits of any block per
/// path... Each loop header may be entered through its back edge at most `unroll` times.
pub fn path_audit(cfg: &Cfg, src: &str, unroll: usize, case: &Value, max_paths: usize) -> (Vec<Violation>, WalkStats) {
    let info = analyse(cfg);
    let mut out: Vec<Violation> = Vec::new();
    let mut stats = WalkStats { paths: 0, transitions: 0, states: 0, capped: false };
    struct Frame {
        block: usize,
        cur: HashMap<Key, Cur>,
        visits: Vec<usize>,
        path: Vec<usize>,
    }
    let n = cfg.len();
    let mut init = HashMap::new();
    for p in cfg.parameters().iter() {
        init.insert(key(p), Cur::Version(0));
    }
    let mut stack = vec![Frame { block: 0, cur: init, visits: vec![0; n], path: Vec::new() }];
    let mut seen_sigs: HashSet<String> = HashSet::new();
    while let Some(mut f) = stack.pop() {
        let Some(block) = cfg.get_basic_block(f.block) else { continue };
        f.visits[f.block] += 1;
        f.path.push(f.block);
        stats.states += 1;
        for stmt in block.iter() {
            let mut violation = |sig: &str, what: String, expected: String| {
                if seen_sigs.insert(sig.to_string()) {
                    out.push(Violation {
                        signature: format!("path/{sig}"),
                        what,
                        case: {
                            let mut c = case.clone();
                            c["path"] = json!(f.path);
                            c
                        },
                        expected,
                        observed: format!("path {:?}\n{src}\n{}", f.path, dump_cfg(cfg)),
                    });
                }
            };
            if let Statement::Substitution { var, rhe: Expression::Phi { args, .. }, .. } = stmt {
                let k = key(var);
                let Some(v) = var.version() else { continue };
                match f.cur.get(&k).copied() {
                    Some(Cur::Version(c)) | Some(Cur::PhiWithoutArgument(c)) => {
                        if !args.iter().any(|a| *a.version() == Some(c)) {
                            violation(
                                "phi-misses-current-version",
                                format!("phi `{stmt:?}` does not list version {c}, which is current on the edge taken"),
                                format!("an argument {}.{c}", k.0),
                            );
                        }
                        if matches!(f.cur.get(&k), Some(Cur::PhiWithoutArgument(_))) {
                            f.cur.insert(k, Cur::PhiWithoutArgument(*v));
                        } else {
                            f.cur.insert(k, Cur::Version(*v));
                        }
                    }
                    None => {
                        // Not assigned on this path: fine if the phi says so explicitly (an
                        // unversioned argument), otherwise later reads are tied to other paths.
                        if args.iter().any(|a| a.version().is_none()) {
                            f.cur.insert(k, Cur::Version(*v));
                        } else {
                            f.cur.insert(k, Cur::PhiWithoutArgument(*v));
                        }
                    }
                }
                continue;
            }
            for name in stmt_reads(stmt) {
                let k = key(name);
                if !info.locals.contains(&k) {
                    continue;
                }
                let Some(v) = name.version() else { continue };
                match f.cur.get(&k).copied() {
                    Some(Cur::Version(c)) => {
                        if c != *v {
                            violation(
                                "read-sees-wrong-version",
                                format!("`{stmt:?}` reads `{name:?}` but version {c} was assigned last on this path"),
                                format!("{}.{c}", k.0),
                            );
                        }
                    }
                    Some(Cur::PhiWithoutArgument(c)) => {
                        if c != *v {
                            violation(
                                "read-sees-wrong-version",
                                format!("`{stmt:?}` reads `{name:?}` but version {c} was assigned last on this path"),
                                format!("{}.{c}", k.0),
                            );
                        } else {
                            violation(
                                "read-of-phi-without-argument-for-path",
                                format!(
                                    "`{stmt:?}` reads `{name:?}`, defined by a phi that has no argument for the path taken \
                                     (the variable was not assigned on this path, yet the read is tied to assignments of other paths)"
                                ),
                                "a version that stands for the unassigned (default) value on this path".to_string(),
                            );
                        }
                    }
                    None => {
                        // Never assigned on this path: the version must have no definition at all.
                        if info.defs.contains_key(&(k.clone(), *v)) {
                            violation(
                                "read-of-version-assigned-elsewhere",
                                format!("`{stmt:?}` reads `{name:?}`, which is assigned only on other paths"),
                                "a version without defining statement (the declared default)".to_string(),
                            );
                        }
                    }
                }
            }
            if let Statement::Substitution { var, .. } = stmt {
                if let Some(v) = var.version() {
                    f.cur.insert(key(var), Cur::Version(*v));
                }
            }
        }
        // Successors.
        let mut succs: Vec<usize> = block.successors().iter().copied().collect();
        succs.sort();
        let nexts: Vec<usize> = succs.into_iter().filter(|s| f.visits[*s] <= unroll).collect();
        if nexts.is_empty() {
            stats.paths += 1;
            if stats.paths >= max_paths {
                stats.capped = true;
                break;
            }
            continue;
        }
        for s in nexts {
            stats.transitions += 1;
            stack.push(Frame { block: s, cur: f.cur.clone(), visits: f.visits.clone(), path: f.path.clone() });
        }
    }
    (out, stats)
}

// ---------------------------------------------------------------------------------------------
// Program space

pub const ATOMS: usize = 9;
pub const CONDS: usize = 2;

struct SsaFiller {
    atoms: Vec<usize>,
    conds: Vec<usize>,
    ai: usize,
    ci: usize,
    loops: usize,
}

fn atom_of(choice: usize) -> Atom {
    match choice {
        0 => Atom::assign("x", "1").with_idents(vec![("x", Role::Write)]),
        1 => Atom::assign("x", "x + 1").with_idents(vec![("x", Role::Write), ("x", Role::Read)]),
        2 => Atom::assign("y", "x").with_idents(vec![("y", Role::Write), ("x", Role::Read)]),
        3 => Atom::decl_var_init("x", "2").with_idents(vec![("x", Role::Decl)]),
        4 => Atom::assign("a[0]", "x").with_idents(vec![("a", Role::Write), ("x", Role::Read)]),
        5 => Atom::assign("a[y]", "y").with_idents(vec![("a", Role::Write), ("y", Role::Read), ("y", Role::Read)]),
        6 => Atom::assign("x", "n").with_idents(vec![("x", Role::Write), ("n", Role::Read)]),
        7 => Atom::assign("n", "x + a[1]").with_idents(vec![("n", Role::Write), ("x", Role::Read), ("a", Role::Read)]),
        _ => Atom::decl_var("z").with_idents(vec![("z", Role::Decl)]),
    }
}

impl Filler for SsaFiller {
    fn atom(&mut self) -> Atom {
        let c = self.atoms.get(self.ai).copied().unwrap_or(0);
        self.ai += 1;
        atom_of(c)
    }
    fn cond(&mut self, _is_loop: bool) -> Cond {
        let c = self.conds.get(self.ci).copied().unwrap_or(0);
        self.ci += 1;
        match c {
            0 => Cond::new("n > 0").with_reads(&["n"]),
            _ => Cond::new("x == 1").with_reads(&["x"]),
        }
    }
    fn for_header(&mut self) -> (Atom, Cond, Atom) {
        self.loops += 1;
        let v = format!("i{}", self.loops);
        self.ci += 1;
        (
            Atom::decl_var_init(&v, "0").with_idents(vec![(&v, Role::Decl)]),
            Cond::new(&format!("{v} < n")).with_reads(&[&v, "n"]),
            Atom::new(&format!("{v}++"), vec![Ev::Assign(format!("{v} = {v} + 1"))]).with_idents(vec![(&v, Role::Write)]),
        )
    }
}

pub fn build(skel: &[Sk], atoms: &[usize], conds: &[usize], is_function: bool, init_array: bool) -> Def {
    let mut filler = SsaFiller { atoms: atoms.to_vec(), conds: conds.to_vec(), ai: 0, ci: 0, loops: 0 };
    let mut body = vec![
        Node::Atom(Atom::decl_var_init("x", "0").with_idents(vec![("x", Role::Decl)])),
        Node::Atom(Atom::decl_var_init("y", "0").with_idents(vec![("y", Role::Decl)])),
        if init_array {
            Node::Atom(
                Atom::new("var a[2] = [0, 0]", vec![Ev::Decl("var a".into()), Ev::Assign("a = [0, 0]".into())])
                    .with_idents(vec![("a", Role::Decl)]),
            )
        } else {
            Node::Atom(Atom::new("var a[2]", vec![Ev::Decl("var a".into())]).with_idents(vec![("a", Role::Decl)]))
        },
    ];
    body.extend(instantiate(skel, &mut filler));
    // Every statement kind that reads: a log whose expressions follow a string argument, then
    // the return / assertion.
    {
        let mut l = Atom::new("log(\"x = \", x, \" y, a = \", y + a[0], n)", vec![Ev::Log("log".into())]);
        l.span_includes_semi = true;
        body.push(Node::Atom(l));
    }
    if is_function {
        body.push(Node::Atom(Atom::ret("x + y + a[0]").with_idents(vec![("x", Role::Read), ("y", Role::Read), ("a", Role::Read)])));
    } else {
        let mut a = Atom::new("assert(x + y + a[0])", vec![Ev::Assert("assert(x + y + a[0])".into())]);
        a.span_includes_semi = true;
        body.push(Node::Atom(a));
    }
    Def {
        kind: if is_function { DefKind::Function } else { DefKind::Template },
        name: "f".into(),
        params: vec!["n".into()],
        body,
    }
}

fn opts(max_stmts: usize) -> SkelOpts {
    SkelOpts { max_stmts, max_depth: 3, allow_for: true, allow_bare: false, allow_block: true, allow_empty_body: false }
}

fn digits(mut i: usize, radix: usize, n: usize) -> Vec<usize> {
    (0..n)
        .map(|_| {
            let d = i % radix;
            i /= radix;
            d
        })
        .collect()
}

pub enum Outcome {
    Rejected,
    Checked(WalkStats),
}

pub fn check_def(def: &Def, unroll: usize, case: &Value) -> (Vec<Violation>, Outcome) {
    let printed = print_def(def);
    let mut out = Vec::new();
    match pipe::lift(&printed.text, &Curve::Bn254) {
        Ok((cfg, _)) => {
            out.extend(static_audit(&cfg, &printed.text, case));
            let (vs, stats) = path_audit(&cfg, &printed.text, unroll, case, 20_000);
            out.extend(vs);
            (out, Outcome::Checked(stats))
        }
        Err(LiftError::NotParsed) => {
            out.push(Violation {
                signature: "MACHINERY-not-parsed".into(),
                what: "generated program rejected by the parser".into(),
                case: case.clone(),
                expected: "accepted".into(),
                observed: printed.text.clone(),
            });
            (out, Outcome::Rejected)
        }
        Err(LiftError::Rejected { .. }) => (out, Outcome::Rejected),
        Err(LiftError::Panic { stage, info }) => {
            out.push(Violation {
                signature: info.signature(),
                what: format!("panic at stage {stage:?}"),
                case: case.clone(),
                expected: "SSA conversion completes".into(),
                observed: format!("{}:{} {}\n{}", info.file, info.line, info.message, printed.text),
            });
            (out, Outcome::Rejected)
        }
    }
}

pub fn run(run: &Run) {
    let max = run.tier.pick(4, 5);
    let unroll = run.tier.pick(2, 3);
    let skels = enumerate(opts(max));
    run.set_rule(&format!(
        "every skeleton <= {max} statements (braced bodies, blocks, for) x every assignment of the \
         {ATOMS}-atom alphabet {{x=1, x=x+1, y=x, var x=2 (redeclare), a[0]=x, a[y]=y, x=n, n=x+a[1], var z}} \
         to the atom slots x every assignment of {{n>0, x==1}} to the conditions x array `a` initialised / declared only, as function (and as template below the statement bound); \
         static audit + every path with each block visited <= {} times; non-trivial = program lifts \
         and has more than one path",
        unroll + 1
    ));
    run.set_extra("skeletons", json!(skels.len()));
    run.set_extra("unroll_bound", json!(unroll));
    par_each(&skels, |i, skel| {
        let na: usize = skel.iter().map(|s| s.atoms()).sum();
        let nc: usize = skel.iter().map(|s| s.conds()).sum();
        let atom_combos = ATOMS.pow(na as u32);
        let cond_combos = CONDS.pow(nc as u32);
        for ac in 0..atom_combos {
            let atoms = digits(ac, ATOMS, na);
            for cc in 0..cond_combos {
                let conds = digits(cc, CONDS, nc);
              // Functions with the array initialised / only declared; templates (whose parameters
              // are declared differently) for skeletons below the statement bound.
              let stmts: usize = na + nc;
              for (is_function, init_array) in [(true, true), (true, false), (false, true)] {
                if !is_function && stmts >= max {
                    continue;
                }
                let case = json!({"kind": "ssa", "max_stmts": max, "index": i, "atoms": atoms, "conds": conds, "unroll": unroll, "init_array": init_array, "template": !is_function});
                let def = build(skel, &atoms, &conds, is_function, init_array);
                run.watch(&case);
                let (violations, outcome) = check_def(&def, unroll, &case);
                run.eval(1);
                match outcome {
                    Outcome::Rejected => run.outcome("rejected"),
                    Outcome::Checked(stats) => {
                        run.add_traces(stats.paths as u64);
                        run.add_transitions(stats.transitions as u64);
                        run.add_states(stats.states as u64);
                        if stats.paths > 1 {
                            run.nontrivial(1);
                        }
                        if stats.capped {
                            run.cap("a program exceeded 20000 paths");
                        }
                        if (i + ac + cc) % 211 == 0 {
                            run.outcome(&format!("paths={}", stats.paths.min(40)));
                            if run.want_sample() && stats.paths > 2 {
                                run.sample(json!({"program": print_def(&def).text, "paths": stats.paths}));
                            }
                        }
                    }
                }
                run.violations(violations);
              }
            }
        }
    });
    // Route B: SSA form produced by the real runner from a file, skeletons <= 2.
    let root = crate::infra::work_dir("c14");
    let small = enumerate(opts(2));
    par_each(&small, |i, skel| {
        let na: usize = skel.iter().map(|s| s.atoms()).sum();
        let nc: usize = skel.iter().map(|s| s.conds()).sum();
        let dir = root.join(format!("{:?}", std::thread::current().id()).replace(|c: char| !c.is_ascii_alphanumeric(), ""));
        for ac in 0..ATOMS.pow(na as u32) {
            let atoms = digits(ac, ATOMS, na);
            for cc in 0..CONDS.pow(nc as u32) {
                let conds = digits(cc, CONDS, nc);
                let case = json!({"kind": "ssa-runner", "index": i, "atoms": atoms, "conds": conds, "unroll": unroll});
                run.watch(&case);
                run.eval(1);
                run.violations(check_def_via_runner(&build(skel, &atoms, &conds, true, true), unroll, &dir, &case));
            }
        }
    });
    let _ = std::fs::remove_dir_all(&root);
    run.assume("paths are explored with every block visited at most unroll+1 times");
}

pub fn check_def_via_runner(def: &Def, unroll: usize, dir: &std::path::Path, case: &Value) -> Vec<Violation> {
    let printed = print_def(def);
    match pipe::lift_via_runner(&printed.text, dir, &def.name, def.kind == DefKind::Function, false) {
        Ok(cfg) => {
            let mut out = static_audit(&cfg, &printed.text, case);
            out.extend(path_audit(&cfg, &printed.text, unroll, case, 20_000).0);
            for v in out.iter_mut() {
                v.signature = format!("{}/runner", v.signature);
            }
            out
        }
        Err(LiftError::Panic { info, .. }) => vec![Violation {
            signature: info.signature(),
            what: "lifting through the runner panicked".into(),
            case: case.clone(),
            expected: "SSA".into(),
            observed: printed.text.clone(),
        }],
        Err(_) => Vec::new(),
    }
}

pub fn replay(case: &Value) -> Vec<Violation> {
    if case["kind"].as_str() == Some("ssa-runner") {
        let root = crate::infra::work_dir("c14-replay");
        let get = |k: &str| -> Vec<usize> {
            case[k].as_array().map(|a| a.iter().map(|v| v.as_u64().unwrap_or(0) as usize).collect()).unwrap_or_default()
        };
        let skels = enumerate(opts(2));
        let out = match skels.get(case["index"].as_u64().unwrap_or(0) as usize) {
            Some(skel) => check_def_via_runner(&build(skel, &get("atoms"), &get("conds"), true, true), case["unroll"].as_u64().unwrap_or(2) as usize, &root, case),
            None => Vec::new(),
        };
        let _ = std::fs::remove_dir_all(&root);
        return out;
    }
    let max = case["max_stmts"].as_u64().unwrap_or(3) as usize;
    let index = case["index"].as_u64().unwrap_or(0) as usize;
    let unroll = case["unroll"].as_u64().unwrap_or(2) as usize;
    let get = |k: &str| -> Vec<usize> {
        case[k].as_array().map(|a| a.iter().map(|v| v.as_u64().unwrap_or(0) as usize).collect()).unwrap_or_default()
    };
    let skels = enumerate(opts(max));
    match skels.get(index) {
        Some(skel) => check_def(
            &build(skel, &get("atoms"), &get("conds"), !case["template"].as_bool().unwrap_or(false), case["init_array"].as_bool().unwrap_or(true)),
            unroll,
            case,
        )
        .0,
        None => Vec::new(),
    }
}

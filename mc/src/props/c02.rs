//! C02 — no silent failure: every fault kind injected at every position of otherwise clean
//! projects, through the binary. (a) faults whose effect is known by construction must yield an
//! error-level diagnostic and a non-zero exit status; (b) whatever a mutation did, if no
//! error-level diagnostic is displayed then the multiset of `analyzing ...` lines must equal the
//! definition headers found by an independent token scan of the named files.
use crate::infra::{par_each, work_dir, Run, Tier, Violation};
use crate::sut::bin::{run_bin, BinOpts, BinRun};
use crate::space::tokens::{definition_headers, tokenize};
use serde_json::{json, Value};
use std::path::{Path, PathBuf};
use std::time::Duration;

pub const LIB: &str = "pragma circom 2.1.4;\n\nfunction double(a) {\n    return a * 2;\n}\n\ntemplate Leaf(n) {\n    signal input in;\n    signal output out;\n    out <== in * double(n);\n}\n";

pub const TOP: &str = "template Top(n) {\n    signal input in;\n    signal output out;\n    component leaf = Leaf(n);\n    leaf.in <== in;\n    out <== leaf.out;\n}\n\ncomponent main = Top(2);\n";

#[derive(Clone, Debug)]
pub struct Project {
    /// (relative path, contents); `None` contents = do not create (missing file).
    pub files: Vec<(String, Option<Vec<u8>>)>,
    pub symlinks: Vec<(String, String)>,
    /// Files named on the command line.
    pub named: Vec<String>,
    pub libs: Vec<String>,
}

pub fn base(name: &str) -> Project {
    match name {
        "single" => {
            let body = LIB.replacen("pragma circom 2.1.4;\n\n", "", 1);
            Project {
                files: vec![("main.circom".into(), Some(format!("pragma circom 2.1.4;\n\n{body}\n{TOP}").into_bytes()))],
                symlinks: vec![],
                named: vec!["main.circom".into()],
                libs: vec![],
            }
        }
        "include" => Project {
            files: vec![
                ("main.circom".into(), Some(format!("pragma circom 2.1.4;\ninclude \"lib.circom\";\n\n{TOP}").into_bytes())),
                ("lib.circom".into(), Some(LIB.as_bytes().to_vec())),
            ],
            symlinks: vec![],
            named: vec!["main.circom".into()],
            libs: vec![],
        },
        _ => Project {
            files: vec![
                ("main.circom".into(), Some(format!("pragma circom 2.1.4;\ninclude \"lib.circom\";\n\n{TOP}").into_bytes())),
                ("libdir/lib.circom".into(), Some(LIB.as_bytes().to_vec())),
            ],
            symlinks: vec![],
            named: vec!["main.circom".into()],
            libs: vec!["libdir".into()],
        },
    }
}

#[derive(Clone, Debug)]
pub struct Mutant {
    pub base: String,
    pub kind: String,
    pub position: usize,
    pub project: Project,
    /// The fault must produce an error-level diagnostic (known by construction).
    pub must_error: bool,
    /// Names of definitions the fault makes the tool drop (known by construction): each must be
    /// named by an error-level diagnostic.
    pub must_mention: Vec<String>,
    /// If known by construction: the only definitions the fault may keep from being analysed.
    /// Every other definition of the named files must still be analysed.
    pub may_drop: Option<Vec<String>>,
    /// Files in each of which an error-level diagnostic must be located.
    pub must_locate: Vec<String>,
}

fn main_text(p: &Project) -> String {
    String::from_utf8(p.files[0].1.clone().unwrap()).unwrap()
}

fn with_main(p: &Project, text: String) -> Project {
    let mut q = p.clone();
    q.files[0].1 = Some(text.into_bytes());
    q
}

pub fn mutants(base_name: &str) -> Vec<Mutant> {
    let p = base(base_name);
    let text = main_text(&p);
    let toks = tokenize(&text);
    let mut out = Vec::new();
    let mut push = |kind: &str, position: usize, project: Project, must_error: bool| {
        out.push(Mutant { base: base_name.to_string(), kind: kind.to_string(), position, project, must_error, must_mention: Vec::new(), may_drop: None, must_locate: Vec::new() });
    };
    for (i, t) in toks.iter().enumerate() {
        let replace = |with: &str| format!("{}{}{}", &text[..t.range.start], with, &text[t.range.end..]);
        push("token-invalid", i, with_main(&p, replace("@")), true);
        push("token-delete", i, with_main(&p, replace("")), false);
        push("token-duplicate", i, with_main(&p, replace(&format!("{} {}", t.text, t.text))), false);
        push("unclosed-comment", i, with_main(&p, format!("{}/* {}", &text[..t.range.start], &text[t.range.start..])), true);
    }
    // Unclosed comment at the very end.
    push("unclosed-comment", toks.len(), with_main(&p, format!("{text}/* never closed")), true);
    // Files.
    let mut q = p.clone();
    q.files[0].1 = None;
    push("file-missing", 0, q, true);
    let mut q = p.clone();
    q.files[0].1 = Some(vec![b'p', b'r', 0xff, 0xfe, b'\n']);
    push("file-not-utf8", 0, q, true);
    let mut q = p.clone();
    q.files[0].1 = None;
    q.symlinks.push(("main.circom".into(), "does-not-exist.circom".into()));
    push("file-dangling-symlink", 0, q, true);
    // A second named file that is missing, next to a good one.
    let mut q = p.clone();
    q.named.push("other.circom".into());
    push("second-file-missing", 0, q, true);
    if base_name != "single" {
        let mut q = p.clone();
        q.files.remove(1);
        push("include-missing", 0, q, true);
    }
    for (i, v) in ["1.0.0", "2.1.5", "2.2.0", "3.0.0", "2.10.0"].iter().enumerate() {
        push("pragma-unsupported", i, with_main(&p, text.replacen("2.1.4", v, 1)), true);
    }
    // Definitions that have to be dropped or cannot be lifted.
    let inject_after = |marker: &str, stmt: &str| text.replacen(marker, &format!("{marker}\n    {stmt}"), 1);
    let tpl = "template Top(n) {";
    let sugar_in_function = [
        "var (p, q) = (1, 2);",
        "var r = Leaf(1)(2);",
    ];
    if text.contains("function double(a) {") {
        for (i, s) in sugar_in_function.iter().enumerate() {
            push("sugar-in-function", i, with_main(&p, inject_after("function double(a) {", s)), true);
        }
        push("duplicate-parameter", 0, with_main(&p, text.replacen("function double(a)", "function double(a, a)", 1)), true);
        push("duplicate-parameter", 1, with_main(&p, text.replacen("template Leaf(n)", "template Leaf(n, n)", 1)), true);
    }
    let bad_sugar_in_template = [
        "(in, out) <== (1, 2, 3);",
        "signal (s1, s2) <== Leaf(n)(in);",
        "var t = Leaf(n)(in, in);",
        "Leaf(n)(nosuch <== in);",
        // surplus named inputs: a repeated name, an unknown name next to the right one
        "signal r1 <== Leaf(n)(in <== in, in <== in);",
        "signal r2 <== Leaf(n)(in <== in, extra <== in);",
        "signal r3 <== Leaf(n)(in, in);",
        "signal r4 <== Leaf(n)();",
    ];
    for (i, s) in bad_sugar_in_template.iter().enumerate() {
        push(
            "malformed-sugar-in-template",
            i,
            with_main(&p, text.replacen("    component leaf = Leaf(n);", &format!("    {s}\n    component leaf = Leaf(n);"), 1)),
            true,
        );
    }
    push("duplicate-parameter", 2, with_main(&p, text.replacen("template Top(n)", "template Top(n, n)", 1)), true);
    let _ = tpl;
    // Two named files that each end in an unclosed comment: one error per file.
    {
        let mut q = with_main(&p, format!("{text}/* never closed"));
        q.files.push(("second.circom".into(), Some(b"pragma circom 2.1.4;\ntemplate Other() {\n    signal input in;\n}\n/* never closed either".to_vec())));
        q.named.push("second.circom".into());
        push("unclosed-comment-in-two-files", 0, q, true);
    }
    // Several main components: a second named file with its own main.
    let mut q = p.clone();
    q.files.push(("second.circom".into(), Some(b"pragma circom 2.1.4;\ntemplate Other() {\n    signal input in;\n    signal output out;\n    out <== in;\n}\ncomponent main = Other();\n".to_vec())));
    q.named.push("second.circom".into());
    push("multiple-main", 0, q, true);
    // A second main component in a file that is only included.
    if base_name != "single" {
        let mut q = p.clone();
        let lib = String::from_utf8(q.files[1].1.clone().unwrap()).unwrap();
        q.files[1].1 = Some(format!("{lib}\ncomponent main = Leaf(1);\n").into_bytes());
        push("multiple-main-in-included-file", 0, q, true);
    }
    // Several main components, none of them in the named file (which includes two files that
    // each define one).
    if base_name != "single" {
        let mut q = with_main(
            &p,
            text.replacen("component main = Top(2);\n", "", 1).replacen("include \"lib.circom\";\n", "include \"lib.circom\";\ninclude \"inc2.circom\";\n", 1),
        );
        let lib = String::from_utf8(q.files[1].1.clone().unwrap()).unwrap();
        q.files[1].1 = Some(format!("{lib}\ncomponent main = Leaf(1);\n").into_bytes());
        q.files.push(("inc2.circom".into(), Some(b"pragma circom 2.1.4;\ntemplate Inc2() {\n    signal input in;\n    signal output out;\n    out <== in;\n}\ncomponent main = Inc2();\n".to_vec())));
        push("multiple-main-all-in-included-files", 0, q, true);
    }
    // A definition of the named file repeats the name of a definition of an included file.
    if base_name != "single" {
        push(
            "duplicate-definition-of-included",
            0,
            with_main(&p, text.replacen("component main", "template Leaf(k) {\n    signal input in;\n    signal output out;\n    out <== in;\n}\n\ncomponent main", 1)),
            true,
        );
    }
    // Duplicate definition names across two named files, with and without a main component.
    let other = "pragma circom 2.1.4;\ntemplate Top(m) {\n    signal input in;\n    signal output out;\n    out <== in;\n}\n";
    let mut q = p.clone();
    q.files.push(("second.circom".into(), Some(other.as_bytes().to_vec())));
    q.named.push("second.circom".into());
    push("duplicate-definition-across-files", 0, q, true);
    let mut q = with_main(&p, text.replacen("component main = Top(2);\n", "", 1));
    q.files.push(("second.circom".into(), Some(other.as_bytes().to_vec())));
    q.named.push("second.circom".into());
    push("duplicate-definition-across-files-no-main", 0, q.clone(), true);
    q.named.reverse();
    push("duplicate-definition-across-files-no-main", 1, q, true);
    // Duplicate definition names: with a main component, and in a library without one.
    push(
        "duplicate-definition",
        0,
        with_main(&p, text.replacen("component main", "template Top(m) {\n    signal input in;\n    signal output out;\n    out <== in;\n}\n\ncomponent main", 1)),
        true,
    );
    // Definitions of two different files clash with earlier ones: each dropped definition must be
    // reported, with and without a main component.
    for (i, main_text) in [text.clone(), text.replacen("component main = Top(2);\n", "", 1)].into_iter().enumerate() {
        let mut q = with_main(&p, main_text);
        q.files.push(("second.circom".into(), Some(b"pragma circom 2.1.4;\ntemplate Top(m) {\n    signal input in;\n    signal output out;\n    out <== in;\n}\n".to_vec())));
        q.files.push(("third.circom".into(), Some(b"pragma circom 2.1.4;\ntemplate Leaf(m) {\n    signal input in;\n    signal output out;\n    out <== in;\n}\nfunction double(m) {\n    return m;\n}\n".to_vec())));
        q.named.push("second.circom".into());
        q.named.push("third.circom".into());
        for (j, order) in [[0usize, 1, 2], [2, 1, 0], [1, 2, 0]].iter().enumerate() {
            let mut r = q.clone();
            r.named = order.iter().map(|k| q.named[*k].clone()).collect();
            push("duplicate-definitions-in-two-files", i * 3 + j, r, true);
        }
    }
    let no_main = text.replacen("component main = Top(2);\n", "", 1);
    push("duplicate-definition-no-main", 0, with_main(&p, format!("{no_main}\ntemplate Top(m) {{\n    signal input in;\n    signal output out;\n    out <== in;\n}}\n")), true);
    for m in out.iter_mut() {
        if m.kind == "unclosed-comment-in-two-files" {
            m.must_locate = vec!["main.circom".into(), "second.circom".into()];
        }
        m.may_drop = match m.kind.as_str() {
            "sugar-in-function" => Some(vec!["double".into()]),
            "malformed-sugar-in-template" => Some(vec!["Top".into()]),
            "duplicate-parameter" => Some(vec![["double", "Leaf", "Top"][m.position.min(2)].to_string()]),
            // the copy that is kept may be the one of an only-included file, which is not analysed
            k if k.starts_with("duplicate-definition") => Some(vec!["Top".into(), "Leaf".into(), "double".into()]),
            _ => None,
        };
        if m.kind == "duplicate-definitions-in-two-files" {
            m.must_mention = vec!["Top".into(), "Leaf".into(), "double".into()];
        } else if m.kind.starts_with("duplicate-definition") && m.kind != "duplicate-definition-of-included" {
            m.must_mention = vec!["Top".into()];
        }
    }
    out
}

pub fn materialise(project: &Project, dir: &Path) {
    let _ = std::fs::remove_dir_all(dir);
    std::fs::create_dir_all(dir).expect("mkdir");
    for (name, contents) in &project.files {
        if let Some(bytes) = contents {
            let path = dir.join(name);
            if let Some(parent) = path.parent() {
                let _ = std::fs::create_dir_all(parent);
            }
            std::fs::write(path, bytes).expect("write");
        }
    }
    for (name, target) in &project.symlinks {
        let _ = std::os::unix::fs::symlink(target, dir.join(name));
    }
}

pub fn run_project(project: &Project, dir: &Path, level: &str) -> BinRun {
    run_project_seed(project, dir, level, 1)
}

pub fn run_project_seed(project: &Project, dir: &Path, level: &str, seed: u64) -> BinRun {
    let mut args: Vec<String> = project.named.clone();
    for l in &project.libs {
        args.push("-L".into());
        args.push(l.clone());
    }
    args.extend(["--level".to_string(), level.to_string(), "--verbose".to_string()]);
    run_bin(&BinOpts { args, cwd: dir, hash_seed: Some(seed), timeout: Duration::from_secs(60), sarif_file: None, mem_limit: None })
}

/// Report ids of warnings and notes (never of errors): analysis passes CS0001-CS0018 except the
/// error-level lifting reports, and the missing-pragma warning.
pub const ALLOWED_NON_ERRORS: [&str; 17] = [
    "P1004", "CS0001", "CS0003", "CS0004", "CS0005", "CS0006", "CS0007", "CS0008", "CS0009", "CS0010", "CS0011", "CS0012", "CS0013", "CS0014", "CS0015", "CS0016", "CS0018",
];

pub fn judge(m: &Mutant, dir: &Path, case: &Value) -> Vec<Violation> {
    let mut out = Vec::new();
    materialise(&m.project, dir);
    // Structural faults involve several files / definitions, whose processing order depends on
    // the hash seed: they are run under four seeds.
    let configs: Vec<(&str, u64)> = if m.must_error && !m.kind.starts_with("token") && m.kind != "unclosed-comment" {
        vec![("info", 1), ("error", 1), ("info", 2), ("info", 3), ("info", 4)]
    } else if m.must_error {
        vec![("info", 1), ("error", 1)]
    } else {
        vec![("info", 1)]
    };
    // An error must not be silenced by allowing warning / info report ids.
    if m.must_error {
        let mut args: Vec<String> = m.project.named.clone();
        for l in &m.project.libs {
            args.push("-L".into());
            args.push(l.clone());
        }
        args.extend(["--level".to_string(), "info".to_string(), "--verbose".to_string()]);
        for id in ALLOWED_NON_ERRORS {
            args.push("--allow".into());
            args.push(id.to_string());
        }
        let run = run_bin(&BinOpts { args, cwd: dir, hash_seed: Some(1), timeout: Duration::from_secs(60), sarif_file: None, mem_limit: None });
        let errors = run.diagnostics.iter().filter(|d| d.level() == "error").count();
        if !run.timed_out && !run.panicked() && (errors == 0 || run.exit == Some(0)) {
            let mut c = case.clone();
            c["allow"] = json!("all warning and info ids");
            out.push(Violation {
                signature: format!("silenced-by-allow/{}", m.kind),
                what: format!("fault {}@{} in base {}: with every warning / info id on the --allow list no error-level diagnostic is left (exit {:?})", m.kind, m.position, m.base, run.exit),
                case: c,
                expected: "the error is still displayed: --allow names report ids, and the ids allowed here are not those of errors".into(),
                observed: crate::infra::truncate(&run.stdout, 600),
            });
        }
    }
    for (level, seed) in configs {
        let level = &level;
        let run = run_project_seed(&m.project, dir, level, seed);
        let mut c = case.clone();
        c["level"] = json!(level);
        c["hash_seed"] = json!(seed);
        let shown_source = || {
            m.project.files.iter().map(|(n, b)| format!("--- {n}\n{}", b.as_ref().map(|b| String::from_utf8_lossy(b).to_string()).unwrap_or_else(|| "<missing>".into()))).collect::<Vec<_>>().join("\n")
        };
        if run.timed_out || run.killed_by_signal.is_some() || run.panicked() || !matches!(run.exit, Some(0) | Some(1)) {
            out.push(Violation {
                signature: if run.timed_out {
                    format!("hang/{}", m.kind)
                } else {
                    format!("crash/{}/{}", m.kind, run.panic_signature().unwrap_or_else(|| format!("exit={:?},signal={:?}", run.exit, run.killed_by_signal)))
                },
                what: format!("the binary crashed, hung or ended with an unexpected status on fault {}@{}", m.kind, m.position),
                case: c,
                expected: "exit status 0 or 1 after the summary line".into(),
                observed: format!("{}\n{}", crate::infra::truncate(&run.stderr, 400), shown_source()),
            });
            continue;
        }
        let errors = run.diagnostics.iter().filter(|d| d.level() == "error").count();
        if m.must_error && (errors == 0 || run.exit == Some(0)) {
            out.push(Violation {
                signature: format!("silent/{}", m.kind),
                what: format!(
                    "fault {}@{} in base {}: no error-level diagnostic / exit status {:?} under --level {level} (summary: {:?})",
                    m.kind, m.position, m.base, run.exit, run.summary
                ),
                case: c.clone(),
                expected: "an error-level diagnostic and a non-zero exit status".into(),
                observed: format!("{}\n{}", crate::infra::truncate(&run.stdout, 600), shown_source()),
            });
        }
        for name in &m.must_mention {
            let needle = format!("`{name}`");
            let named = run.diagnostics.iter().filter(|d| d.level() == "error").any(|d| d.message.contains(&needle) || d.labels.iter().any(|l| l.contains(&needle)));
            if !named {
                out.push(Violation {
                    signature: format!("dropped-definition-not-reported/{}", m.kind),
                    what: format!("fault {}@{} in base {}: a second definition of `{name}` is dropped but no error-level diagnostic names it (--level {level})", m.kind, m.position, m.base),
                    case: c.clone(),
                    expected: format!("an error-level diagnostic naming `{name}`"),
                    observed: format!("{}\n{}", crate::infra::truncate(&run.stdout, 900), shown_source()),
                });
                break;
            }
        }
        for file in &m.must_locate {
            let located = run.diagnostics.iter().filter(|d| d.level() == "error").any(|d| d.location.as_ref().map(|(p, _, _)| p.ends_with(file.as_str())).unwrap_or(false));
            if !located && *level == "info" {
                out.push(Violation {
                    signature: format!("error-not-located-in-every-file/{}", m.kind),
                    what: format!("fault {}@{} in base {}: `{file}` cannot be read to its end but no error-level diagnostic is located in it", m.kind, m.position, m.base),
                    case: c.clone(),
                    expected: format!("an error located in {file}"),
                    observed: crate::infra::truncate(&run.stdout, 700),
                });
            }
        }
        if let Some(may_drop) = &m.may_drop {
            // The fault concerns these definitions only: every other definition of the named
            // files is analysed although an error is reported.
            let mut expected: Vec<String> = Vec::new();
            for name in &m.project.named {
                if let Some(text) = m.project.files.iter().find(|(n, _)| n == name).and_then(|(_, b)| b.clone()).and_then(|b| String::from_utf8(b).ok()) {
                    let blanked = crate::refsem::lexer::blank_comments(&text).unwrap_or(text);
                    expected.extend(definition_headers(&blanked).into_iter().map(|(_, n)| n));
                }
            }
            expected.sort();
            expected.dedup();
            let missing: Vec<&String> = expected.iter().filter(|n| !may_drop.contains(n) && !run.analyzed.iter().any(|(_, a)| a == *n)).collect();
            if !missing.is_empty() && *level == "info" {
                out.push(Violation {
                    signature: format!("bystander-not-analysed/{}", m.kind),
                    what: format!("fault {}@{} in base {}: the definitions {missing:?} have nothing to do with the fault but are not analysed", m.kind, m.position, m.base),
                    case: c.clone(),
                    expected: format!("every definition except {may_drop:?} analysed"),
                    observed: format!("analysed = {:?}\n{}\n{}", run.analyzed, crate::infra::truncate(&run.stdout, 500), shown_source()),
                });
            }
        }
        if errors == 0 && *level == "info" {
            // (b): everything in the named files must have been analysed.
            let mut scanned: Vec<(String, String)> = Vec::new();
            let mut all_read = true;
            for name in &m.project.named {
                match m.project.files.iter().find(|(n, _)| n == name).and_then(|(_, b)| b.clone()) {
                    Some(bytes) => match String::from_utf8(bytes) {
                        Ok(text) => {
                            let blanked = crate::refsem::lexer::blank_comments(&text).unwrap_or(text);
                            scanned.extend(definition_headers(&blanked));
                        }
                        Err(_) => all_read = false,
                    },
                    None => all_read = false,
                }
            }
            let mut analysed = run.analyzed.clone();
            scanned.sort();
            analysed.sort();
            if !all_read || scanned != analysed {
                out.push(Violation {
                    signature: format!("unanalysed/{}", m.kind),
                    what: format!(
                        "fault {}@{} in base {}: no error-level diagnostic is displayed, yet not every definition of the named files was analysed",
                        m.kind, m.position, m.base
                    ),
                    case: c,
                    expected: format!("analysed = {scanned:?} and every named file read"),
                    observed: format!("analysed = {analysed:?}, all files readable = {all_read}\n{}\n{}", crate::infra::truncate(&run.stdout, 500), shown_source()),
                });
            }
        }
    }
    out
}

pub fn run(run: &Run) {
    run.set_rule(
        "fault alphabet {invalid token @, token deleted, token duplicated, unclosed /* } at every token \
         position of the main file of each base project (single file; file + include; file + -L \
         library), plus structural faults (missing / non-UTF-8 / dangling file, missing include, \
         unsupported pragma, sugar in functions, malformed sugar in templates, duplicate parameters, \
         several main components (in named and in only-included files), duplicate definitions in one, two and three files with every dropped definition named by an error), each through the binary under --level info \
         (and --level error, and with every warning / info id on the --allow list, for faults that must be reported); non-trivial = mutant differs from base",
    );
    let bases: &[&str] = &["single", "include", "library"];
    let _ = Tier::Quick;
    let root = work_dir("c02");
    let mut all: Vec<Mutant> = Vec::new();
    for b in bases {
        // The base itself must be analysable and free of errors.
        let p = base(b);
        let dir = root.join(format!("base-{b}"));
        materialise(&p, &dir);
        let r = run_project(&p, &dir, "info");
        if r.diagnostics.iter().any(|d| d.level() == "error") || r.analyzed.is_empty() {
            run.machinery_error(&format!("base project {b} is not clean: {}", crate::infra::truncate(&r.stdout, 300)));
        }
        all.extend(mutants(b));
    }
    run.set_extra("mutants", json!(all.len()));
    let mut kinds: Vec<String> = all.iter().map(|m| m.kind.clone()).collect();
    kinds.sort();
    kinds.dedup();
    run.set_extra("fault_kinds", json!(kinds));
    par_each(&all, |i, m| {
        let case = json!({"kind": "fault", "base": m.base, "fault": m.kind, "position": m.position});
        if run.too_many_hangs() {
            return;
        }
        run.watch(&case);
        let dir = root.join(format!("m{i}"));
        let vs = judge(m, &dir, &case);
        run.eval(1);
        run.nontrivial(1);
        run.outcome(&format!("{}:{}", m.kind, if vs.is_empty() { "ok" } else { "violation" }));
        if run.want_sample() && i % 97 == 5 {
            run.sample(json!({"base": m.base, "fault": m.kind, "position": m.position,
                "main": m.project.files[0].1.as_ref().map(|b| String::from_utf8_lossy(b).to_string())}));
        }
        run.violations(vs);
        let _ = std::fs::remove_dir_all(&dir);
    });
    let _ = std::fs::remove_dir_all(&root);
    run.assume("the checks run as root, so an unreadable (chmod 000) file cannot be produced; unreadable is represented by non-UTF-8 content and a dangling symlink");
}

pub fn replay(case: &Value) -> Vec<Violation> {
    let base_name = case["base"].as_str().unwrap_or("single");
    let kind = case["fault"].as_str().unwrap_or("");
    let position = case["position"].as_u64().unwrap_or(0) as usize;
    let root: PathBuf = work_dir("c02-replay");
    let out = match mutants(base_name).into_iter().find(|m| m.kind == kind && m.position == position) {
        Some(m) => judge(&m, &root, case),
        None => Vec::new(),
    };
    let _ = std::fs::remove_dir_all(&root);
    out
}

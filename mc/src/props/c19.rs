//! C19 — includes: each file once, cycles terminate, only named files reported on. Every include
//! graph on n <= 3 files x spelling of the edges x every non-empty set of named files x library
//! configuration, through the binary, with an in-process twin for the file library.
use crate::infra::{par_each, work_dir, Run, Tier, Violation};
use crate::sut::bin::{run_bin, BinOpts};
use crate::sut::runner;
use program_structure::constants::Curve;
use serde_json::{json, Value};
use std::collections::BTreeSet;
use std::path::{Path, PathBuf};
use std::time::Duration;

pub const SPELLINGS: [&str; 5] = ["plain", "dot", "dotdot", "symlink", "mixed"];
pub const LIBS: [&str; 8] = ["none", "dir", "file", "off", "dir+named", "file+named", "two-files-cycle", "two-dirs-in-command-line-order"];

#[derive(Clone, Debug)]
pub struct Config {
    pub n: usize,
    /// bit i*n+j: file i includes file j
    pub edges: u32,
    pub spelling: usize,
    /// bitmask of named files (non-empty)
    pub named: u32,
    pub lib: usize,
    /// Some((i, j)): the edge i->j is retargeted to a file that does not exist.
    pub missing: Option<(usize, usize)>,
    /// Bitmask of the files that include the library file `flib.circom`.
    pub lib_includers: u32,
    /// Some(k): file k carries a version pragma newer than the supported one (reported as an
    /// error; the file and its includes are processed all the same).
    pub new_pragma: Option<usize>,
    /// Some(k): file k has a syntax error (it is read once, however many paths reach it).
    pub bad_syntax: Option<usize>,
}

impl Config {
    fn includes_lib(&self, i: usize) -> bool {
        self.lib != 3 && self.lib_includers >> i & 1 == 1
    }
    fn lib_resolves(&self) -> bool {
        matches!(self.lib, 1 | 2 | 4 | 5 | 6 | 7)
    }
}

fn spell(spelling: usize, i: usize, j: usize) -> String {
    let s = if spelling == 4 { (i + 2 * j) % 4 } else { spelling };
    match s {
        0 => format!("f{j}.circom"),
        1 => format!("./f{j}.circom"),
        2 => format!("sub/../f{j}.circom"),
        _ => format!("alias{j}.circom"),
    }
}

pub struct Built {
    pub named: Vec<String>,
    pub args: Vec<String>,
    /// (file index, 1-based line) of the include statement expected to fail.
    pub failing_include: Option<(usize, usize, String)>,
    pub texts: Vec<String>,
}

pub fn build(cfg: &Config, dir: &Path) -> Built {
    let _ = std::fs::remove_dir_all(dir);
    std::fs::create_dir_all(dir.join("sub")).expect("mkdir");
    std::fs::create_dir_all(dir.join("libdir")).expect("mkdir");
    let mut failing = None;
    let mut texts = Vec::new();
    for i in 0..cfg.n {
        let mut text = String::from(if cfg.new_pragma == Some(i) { "pragma circom 2.1.9;\n" } else { "pragma circom 2.1.4;\n" });
        let mut line = 2;
        let mut targets = Vec::new();
        for j in 0..cfg.n {
            if cfg.edges >> (i * cfg.n + j) & 1 == 1 {
                if cfg.missing == Some((i, j)) {
                    text.push_str("include \"nowhere.circom\";\n");
                    failing = Some((i, line, "nowhere.circom".to_string()));
                } else {
                    text.push_str(&format!("include \"{}\";\n", spell(cfg.spelling, i, j)));
                    targets.push(j);
                }
                line += 1;
            }
        }
        if cfg.includes_lib(i) {
            // One extra file that is only reachable through the library.
            text.push_str("include \"flib.circom\";\n");
            if cfg.lib == 0 && failing.is_none() {
                failing = Some((i, line, "flib.circom".to_string()));
            }
        }
        text.push_str(&format!("template T{i}() {{\n    signal input in;\n    signal output out;\n    out <-- in;\n"));
        for j in &targets {
            text.push_str(&format!("    component c{j} = T{j}();\n    c{j}.in <== in;\n"));
        }
        if cfg.includes_lib(i) && cfg.lib_resolves() {
            text.push_str("    component cl = TL();\n    cl.in <== in;\n");
        }
        text.push_str("}\n");
        if cfg.bad_syntax == Some(i) {
            text.push_str("template @ broken\n");
        }
        std::fs::write(dir.join(format!("f{i}.circom")), &text).expect("write");
        let _ = std::os::unix::fs::symlink(format!("f{i}.circom"), dir.join(format!("alias{i}.circom")));
        texts.push(text);
    }
    let lib_head = if cfg.lib == 6 { "pragma circom 2.1.4;\ninclude \"glib.circom\";\n" } else { "pragma circom 2.1.4;\n" };
    std::fs::write(
        dir.join("libdir/flib.circom"),
        format!("{lib_head}template TL() {{\n    signal input in;\n    signal output out;\n    out <-- in;\n}}\n"),
    )
    .expect("write");
    // A second directory that also provides `flib.circom` (its TL has two outputs), sorted
    // before `libdir` but given after it on the command line.
    std::fs::create_dir_all(dir.join("alibdir")).expect("mkdir");
    std::fs::write(
        dir.join("alibdir/flib.circom"),
        "pragma circom 2.1.4;\ntemplate TL() {\n    signal input in;\n    signal output out;\n    signal output out2;\n    out <-- in;\n    out2 <-- in;\n}\n",
    )
    .expect("write");
    std::fs::create_dir_all(dir.join("libdir2")).expect("mkdir");
    std::fs::write(
        dir.join("libdir2/glib.circom"),
        "pragma circom 2.1.4;\ninclude \"flib.circom\";\ntemplate TG() {\n    signal input in;\n    signal output out;\n    out <-- in;\n}\n",
    )
    .expect("write");
    let named: Vec<String> = (0..cfg.n).filter(|i| cfg.named >> i & 1 == 1).map(|i| format!("f{i}.circom")).collect();
    let mut named = named;
    if cfg.lib == 4 || cfg.lib == 5 {
        // The library file is also named on the command line.
        named.push("libdir/flib.circom".to_string());
    }
    let mut args = named.clone();
    match cfg.lib {
        1 | 4 => args.extend(["-L".to_string(), "libdir".to_string()]),
        2 | 5 => args.extend(["-L".to_string(), "libdir/flib.circom".to_string()]),
        6 => args.extend(["-L".to_string(), "libdir/flib.circom".to_string(), "-L".to_string(), "libdir2/glib.circom".to_string()]),
        7 => args.extend(["-L".to_string(), "libdir".to_string(), "-L".to_string(), "alibdir".to_string()]),
        _ => {}
    }
    args.extend(["--verbose".to_string(), "--level".to_string(), "warning".to_string()]);
    Built { named, args, failing_include: failing, texts }
}

/// The in-process twin restricted to "no file is read twice".
fn check_files_once(cfg: &Config, built: &Built, dir: &Path, mut out: Vec<Violation>, case: &Value) -> Vec<Violation> {
    let files: Vec<PathBuf> = built.named.iter().map(|n| dir.join(n)).collect();
    if let Ok(loaded) = runner::load(&files, &[], Curve::Bn254) {
        let lib = loaded.runner.file_library();
        let mut seen: Vec<String> = Vec::new();
        let mut id = 0;
        while let Ok(file) = lib.to_storage().get(id) {
            let name = file.name().to_string();
            seen.push(std::fs::canonicalize(&name).map(|p| p.display().to_string()).unwrap_or(name));
            id += 1;
        }
        let mut dedup = seen.clone();
        dedup.sort();
        dedup.dedup();
        if dedup.len() != seen.len() {
            out.push(Violation {
                signature: "file-read-twice".into(),
                what: format!("a file with a syntax error (f{}.circom) that is reachable through several paths was read and parsed more than once", cfg.bad_syntax.unwrap_or(0)),
                case: case.clone(),
                expected: "each distinct file once in the file library".into(),
                observed: format!("{seen:?} args {:?}", built.args),
            });
        }
    }
    out
}

fn reachable(cfg: &Config) -> BTreeSet<usize> {
    let mut seen: BTreeSet<usize> = (0..cfg.n).filter(|i| cfg.named >> i & 1 == 1).collect();
    let mut stack: Vec<usize> = seen.iter().copied().collect();
    while let Some(i) = stack.pop() {
        for j in 0..cfg.n {
            if cfg.edges >> (i * cfg.n + j) & 1 == 1 && cfg.missing != Some((i, j)) && seen.insert(j) {
                stack.push(j);
            }
        }
    }
    seen
}

pub fn check(cfg: &Config, dir: &Path, case: &Value) -> Vec<Violation> {
    let mut out = Vec::new();
    let built = build(cfg, dir);
    let sarif_path = dir.join("out.sarif");
    let mut args = built.args.clone();
    args.extend(["--sarif-file".to_string(), sarif_path.display().to_string()]);
    let run = run_bin(&BinOpts { args, cwd: dir, hash_seed: Some(1), timeout: Duration::from_secs(10), sarif_file: Some(sarif_path), mem_limit: None });
    let describe = || format!("args {:?}\n{}", built.args, built.texts.iter().enumerate().map(|(i, t)| format!("--- f{i}.circom\n{t}")).collect::<Vec<_>>().join(""));
    let mut push = |sig: String, what: String, expected: String, observed: String| {
        out.push(Violation { signature: sig, what, case: case.clone(), expected, observed });
    };
    if run.timed_out {
        push("hang/include-graph".into(), "the tool does not terminate on this include graph".into(), "termination".into(), describe());
        return out;
    }
    if run.killed_by_signal.is_some() || run.panicked() || !matches!(run.exit, Some(0) | Some(1)) {
        push(
            format!("crash/{}", run.panic_signature().unwrap_or_else(|| format!("exit={:?}", run.exit))),
            "the tool crashed on this include graph".into(),
            "normal termination".into(),
            format!("{}\n{}", crate::infra::truncate(&run.stderr, 300), describe()),
        );
        return out;
    }
    if cfg.bad_syntax.is_some() {
        // A file that does not parse: which definitions survive is C02's subject; here only
        // "each file once" (below, in-process) and termination are judged.
        return check_files_once(cfg, &built, dir, out, case);
    }
    // Analysed templates = templates of the named files (each exactly once).
    let mut analysed: Vec<String> = run.analyzed.iter().map(|(_, n)| n.clone()).collect();
    analysed.sort();
    let mut expected_analysed: Vec<String> = (0..cfg.n).filter(|i| cfg.named >> i & 1 == 1).map(|i| format!("T{i}")).collect();
    if cfg.lib == 4 || cfg.lib == 5 {
        expected_analysed.push("TL".to_string());
    }
    expected_analysed.sort();
    if analysed != expected_analysed {
        push(
            "analysed-set".into(),
            "the analysed templates are not exactly the templates of the named files".into(),
            format!("{expected_analysed:?}"),
            format!("{analysed:?}\n{}", describe()),
        );
    }
    // Findings only for named files.
    let canon_named: Vec<String> = built.named.iter().filter_map(|n| std::fs::canonicalize(dir.join(n)).ok()).map(|p| p.display().to_string()).collect();
    for d in &run.diagnostics {
        if let Some((path, _, _)) = &d.location {
            let canon = std::fs::canonicalize(path).map(|p| p.display().to_string()).unwrap_or_else(|_| path.clone());
            if !canon_named.contains(&canon) {
                push(
                    format!("finding-in-included-file/{}", d.id.clone().unwrap_or_default()),
                    format!("a finding is located in `{path}`, which was only included"),
                    format!("findings only in {canon_named:?}"),
                    format!("{d:?}\n{}", describe()),
                );
            }
        }
    }
    // The same holds for the SARIF file.
    if let Some(sarif) = &run.sarif {
        for r in crate::sut::bin::sarif_results(sarif).0 {
            for l in &r.locations {
                let path = l.0.trim_start_matches("file://").to_string();
                let canon = std::fs::canonicalize(&path).map(|p| p.display().to_string()).unwrap_or_else(|_| path.clone());
                if !canon_named.contains(&canon) {
                    push(
                        format!("sarif-result-in-included-file/{}", r.rule_id),
                        format!("a SARIF result is located in `{path}`, which was only included"),
                        format!("results only in {canon_named:?}"),
                        format!("{} {}\n{}", r.rule_id, r.message, describe()),
                    );
                }
            }
        }
    }
    // Included definitions inform the analysis: one CS0018 per instantiated included template.
    for i in (0..cfg.n).filter(|i| cfg.named >> i & 1 == 1) {
        let mut expected = (0..cfg.n).filter(|j| cfg.edges >> (i * cfg.n + j) & 1 == 1 && cfg.missing != Some((i, *j))).count();
        if cfg.includes_lib(i) && cfg.lib_resolves() {
            expected += 1;
        }
        let file = format!("f{i}.circom");
        let got = run
            .diagnostics
            .iter()
            .filter(|d| d.id.as_deref() == Some("CS0018") && d.location.as_ref().map(|(p, _, _)| p.ends_with(&file)).unwrap_or(false))
            .count();
        if got != expected {
            push(
                "included-definitions-not-visible".into(),
                format!("T{i} instantiates {expected} templates defined in included files but {got} unused-output findings are shown"),
                format!("{expected} CS0018 findings in {file}"),
                format!("{}\n{}", crate::infra::truncate(&run.stdout, 600), describe()),
            );
        }
    }
    // Errors: exactly the unresolvable include, located at the include statement.
    let version_errors = run.diagnostics.iter().filter(|d| d.level() == "error" && d.message.contains("which is not supported")).count();
    let expected_version_errors = cfg.new_pragma.map(|k| reachable(cfg).contains(&k) as usize).unwrap_or(0);
    if cfg.new_pragma.is_some() && version_errors != expected_version_errors {
        push(
            "version-error-count".into(),
            format!("{expected_version_errors} file(s) that are read require a newer compiler version, but {version_errors} such errors are displayed"),
            format!("{expected_version_errors}"),
            format!("{}\n{}", crate::infra::truncate(&run.stdout, 400), describe()),
        );
    }
    let errors: Vec<&crate::sut::bin::Diagnostic> = run.diagnostics.iter().filter(|d| d.level() == "error" && !(cfg.new_pragma.is_some() && d.message.contains("which is not supported"))).collect();
    match &built.failing_include {
        Some((i, line, path)) if cfg.named >> i & 1 == 1 => {
            let file = format!("f{i}.circom");
            let hit = errors.iter().any(|d| {
                d.message.contains(path) && d.location.as_ref().map(|(p, l, c)| p.ends_with(&file) && *l == *line && *c == 1).unwrap_or(false)
            });
            if !hit {
                push(
                    "unresolved-include-not-located".into(),
                    format!("include of `{path}` in {file} line {line} cannot be resolved, but no error is located at that include statement"),
                    format!("an error at {file}:{line}:1"),
                    format!("{errors:?}\n{}", describe()),
                );
            }
        }
        Some(_) => {}
        None => {
            if !errors.is_empty() {
                push(
                    format!("unexpected-error/{}", errors[0].id.clone().unwrap_or_default()),
                    "every include resolves, yet an error is displayed".into(),
                    "no error".into(),
                    format!("{errors:?}\n{}", describe()),
                );
            }
        }
    }
    // In-process twin: each canonical file appears once in the file library.
    let files: Vec<PathBuf> = built.named.iter().map(|n| dir.join(n)).collect();
    let libs: Vec<PathBuf> = match cfg.lib {
        1 | 4 => vec![dir.join("libdir")],
        2 | 5 => vec![dir.join("libdir/flib.circom")],
        6 => vec![dir.join("libdir/flib.circom"), dir.join("libdir2/glib.circom")],
        7 => vec![dir.join("libdir"), dir.join("alibdir")],
        _ => vec![],
    };
    if let Ok(loaded) = runner::load(&files, &libs, Curve::Bn254) {
        let lib = loaded.runner.file_library();
        let mut seen: Vec<String> = Vec::new();
        let mut id = 0;
        while let Ok(file) = lib.to_storage().get(id) {
            let name = file.name().to_string();
            let canon = std::fs::canonicalize(&name).map(|p| p.display().to_string()).unwrap_or(name);
            seen.push(canon);
            id += 1;
        }
        let mut dedup = seen.clone();
        dedup.sort();
        dedup.dedup();
        if dedup.len() != seen.len() {
            push(
                "file-read-twice".into(),
                "a file reachable through several paths or spellings was read and parsed more than once".into(),
                "each distinct file once in the file library".into(),
                format!("{seen:?}\n{}", describe()),
            );
        }
        let mut expected_files: BTreeSet<String> = reachable(cfg).iter().filter_map(|i| std::fs::canonicalize(dir.join(format!("f{i}.circom"))).ok()).map(|p| p.display().to_string()).collect();
        let lib_reached = cfg.lib_resolves() && reachable(cfg).iter().any(|i| cfg.includes_lib(*i));
        if cfg.lib == 4 || cfg.lib == 5 || lib_reached {
            if let Ok(p) = std::fs::canonicalize(dir.join("libdir/flib.circom")) {
                expected_files.insert(p.display().to_string());
            }
        }
        if cfg.lib == 6 && lib_reached {
            if let Ok(p) = std::fs::canonicalize(dir.join("libdir2/glib.circom")) {
                expected_files.insert(p.display().to_string());
            }
        }
        let got: BTreeSet<String> = dedup.into_iter().collect();
        if got != expected_files {
            push(
                "files-read".into(),
                "the set of files read differs from the files reachable through includes".into(),
                format!("{expected_files:?}"),
                format!("{got:?}\n{}", describe()),
            );
        }
    }
    out
}

pub fn configs(tier: Tier) -> Vec<Config> {
    let mut v = Vec::new();
    for n in 1..=3usize {
        for edges in 0..(1u32 << (n * n)) {
            for named in 1..(1u32 << n) {
                for spelling in 0..SPELLINGS.len() {
                    if edges == 0 && spelling > 0 {
                        continue;
                    }
                    // library configurations on a slice of the graphs in quick, all in thorough
                    let libs: Vec<usize> = if tier == Tier::Thorough || edges % 8 == 3 { vec![3, 0, 1, 2, 4, 5, 6, 7] } else { vec![3] };
                    for lib in libs {
                        // Which files include the library file: only f0, or (for resolvable
                        // configurations) every subset in thorough / all files in quick.
                        let masks: Vec<u32> = if lib == 3 || lib == 0 {
                            vec![1]
                        } else if tier == Tier::Thorough {
                            (1..(1u32 << n)).collect()
                        } else {
                            vec![1, (1u32 << n) - 1]
                        };
                        for lib_includers in masks {
                            v.push(Config { n, edges, spelling, named, lib, missing: None, lib_includers, new_pragma: None, bad_syntax: None });
                        }
                    }
                }
                // one file with a version pragma that is too new (every file in turn)
                if edges != 0 && (tier == Tier::Thorough || edges % 4 == 1) {
                    for k in 0..n {
                        v.push(Config { n, edges, spelling: 0, named, lib: 3, missing: None, lib_includers: 1, new_pragma: Some(k), bad_syntax: None });
                        v.push(Config { n, edges, spelling: 0, named, lib: 3, missing: None, lib_includers: 1, new_pragma: None, bad_syntax: Some(k) });
                    }
                }
                // one edge retargeted to a missing file (first edge of the graph)
                if let Some(bit) = (0..(n * n)).find(|b| edges >> b & 1 == 1) {
                    if tier == Tier::Thorough || edges % 4 == 1 {
                        v.push(Config { n, edges, spelling: 0, named, lib: 3, missing: Some((bit / n, bit % n)), lib_includers: 1, new_pragma: None, bad_syntax: None });
                    }
                }
            }
        }
    }
    v
}

fn case_of(c: &Config) -> Value {
    json!({"kind": "includes", "n": c.n, "edges": c.edges, "spelling": c.spelling, "named": c.named, "lib": c.lib, "lib_includers": c.lib_includers,
        "missing": c.missing.map(|(i, j)| vec![i, j]), "new_pragma": c.new_pragma, "bad_syntax": c.bad_syntax})
}

pub fn run(run: &Run) {
    run.set_rule(
        "every include graph (adjacency matrix, self-includes allowed) on 1..3 files x edge spelling \
         {plain, ./, sub/../, symlink alias, mixed} x every non-empty set of named files x library \
         configuration {no library include, unresolvable library include, -L dir, -L file} (a slice of \
         the graphs in quick) + first edge retargeted to a missing file; states = configurations, \
         transitions = files read; non-trivial = graph with at least one include edge",
    );
    let all = configs(run.tier);
    run.set_extra("configurations", json!(all.len()));
    let root = work_dir("c19");
    par_each(&all, |i, cfg| {
        let case = case_of(cfg);
        if run.too_many_hangs() {
            return;
        }
        run.watch(&case);
        let dir = root.join(format!("g{i}"));
        let vs = check(cfg, &dir, &case);
        run.eval(1);
        run.add_states(1);
        run.add_transitions(reachable(cfg).len() as u64);
        run.add_traces(1);
        if cfg.edges != 0 {
            run.nontrivial(1);
        }
        if i % 211 == 0 {
            run.outcome(&format!("n={},lib={},violations={}", cfg.n, LIBS.get(cfg.lib).unwrap_or(&"off"), vs.len().min(2)));
            if run.want_sample() && cfg.edges.count_ones() >= 3 {
                run.sample(json!({"config": case, "files": build(cfg, &dir).texts}));
            }
        }
        run.violations(vs);
        let _ = std::fs::remove_dir_all(&dir);
    });
    let _ = std::fs::remove_dir_all(&root);
}

pub fn replay(case: &Value) -> Vec<Violation> {
    let cfg = Config {
        n: case["n"].as_u64().unwrap_or(1) as usize,
        edges: case["edges"].as_u64().unwrap_or(0) as u32,
        spelling: case["spelling"].as_u64().unwrap_or(0) as usize,
        named: case["named"].as_u64().unwrap_or(1) as u32,
        lib: case["lib"].as_u64().unwrap_or(3) as usize,
        missing: case["missing"].as_array().map(|a| (a[0].as_u64().unwrap_or(0) as usize, a[1].as_u64().unwrap_or(0) as usize)),
        lib_includers: case["lib_includers"].as_u64().unwrap_or(1) as u32,
        new_pragma: case["new_pragma"].as_u64().map(|k| k as usize),
        bad_syntax: case["bad_syntax"].as_u64().map(|k| k as usize),
    };
    let root = work_dir("c19-replay");
    let out = check(&cfg, &root, case);
    let _ = std::fs::remove_dir_all(&root);
    out
}

//! C04 — every displayed location is valid and points at the construct it talks about. Corpus
//! files x decorations (comments with multi-byte characters, CRLF, multi-byte text in strings)
//! inserted at every token gap; every label of every finding (parsing, lifting, every pass):
//! (a) names a file that was read, lies inside it, start <= end, on character boundaries;
//! (b) the text under a primary label is a complete construct (statement, expression,
//!     declaration, parameter list) naming the identifier the label message talks about;
//! (c) line/column in the binary's output and in SARIF are those of the original bytes.
use super::decor::{analyse, corpus, gaps, insert, line_col, squeeze};
use crate::infra::{par_each, work_dir, Run, Violation};
use crate::sut::bin::{run_bin, sarif_results, BinOpts};
use crate::sut::runner::Finding;
use serde_json::{json, Value};
use std::path::Path;
use std::time::Duration;

pub const DECORATIONS: [&str; 12] = ["/*é*/", "// ü\n", "/***/", "/* 漢字 */ ", "\r\n", " \t ", "×", "≠ ", " 😀", "#", "é", "\u{feff}"];

fn is_identifier_list(t: &str) -> bool {
    !t.is_empty()
        && t.split(',').all(|part| {
            let p = part.trim();
            !p.is_empty()
                && p.chars().all(|c| c.is_ascii_alphanumeric() || c == '_' || c == '$')
                && p.chars().any(|c| c.is_ascii_alphabetic())
        })
}

/// Does the text form a complete construct? Judged with the real parser as a syntax oracle.
pub fn is_construct(t: &str) -> bool {
    if is_identifier_list(t) {
        return true;
    }
    let candidates = [
        format!("function f() {{ {t} }}"),
        format!("function f() {{ {t}; }}"),
        format!("function f() {{ return {t}; }}"),
        format!("template f() {{ {t} }}"),
        format!("template f() {{ {t}; }}"),
    ];
    if candidates.iter().any(|c| matches!(crate::sut::pipe::parse(c), Ok(Some(_)))) {
        return true;
    }
    // top-level items: include, main component, whole definitions
    matches!(crate::infra::catch(|| parser::verif::parse_string(t)), Ok(Some(_)))
}

fn generated_name(s: &str) -> bool {
    let parts: Vec<&str> = s.split('_').collect();
    parts.len() >= 3 && parts[parts.len() - 1].chars().all(|c| c.is_ascii_digit()) && parts[parts.len() - 2].chars().all(|c| c.is_ascii_digit())
}

pub fn check_findings(name: &str, text: &str, findings: &[Finding], invalid: &[String], case: &Value) -> Vec<Violation> {
    let mut out = Vec::new();
    for bad in invalid {
        let id = bad.split_whitespace().next().unwrap_or("");
        let why = bad.rsplit(": ").next().unwrap_or("").split(' ').take(4).collect::<Vec<_>>().join("-");
        out.push(Violation {
            signature: format!("invalid-label/{id}/{why}"),
            what: format!("corpus {name}: {bad}"),
            case: case.clone(),
            expected: "labels name a file that was read, with start <= end <= length, on character boundaries".into(),
            observed: text.to_string(),
        });
    }
    for f in findings {
        // Parse errors point at a position (possibly of zero width); everything else at a construct.
        let positional = f.id.starts_with('P') && f.level == "error";
        for l in &f.primary {
            let Some(raw) = &l.text else { continue };
            let t = squeeze(raw);
            if positional {
                continue;
            }
            if t.is_empty() || !is_construct(&t) {
                out.push(Violation {
                    signature: format!("not-a-construct/{}", f.id),
                    what: format!("corpus {name}: the primary label of `{}` covers `{}`, which is not a statement, expression, declaration or parameter list", f.short(), crate::infra::truncate(raw, 80)),
                    case: case.clone(),
                    expected: "a complete construct under the primary label".into(),
                    observed: format!("bytes {}..{}\n{text}", l.start, l.end),
                });
                continue;
            }
            // Findings about a parameter point at the parameter list.
            if f.message.starts_with("The parameter `") && !is_identifier_list(&t) {
                out.push(Violation {
                    signature: format!("parameter-finding-not-at-parameter-list/{}", f.id),
                    what: format!("corpus {name}: `{}` is labelled at `{}`, which is not a parameter list", f.short(), crate::infra::truncate(&t, 80)),
                    case: case.clone(),
                    expected: "the parameter list of the definition under the primary label".into(),
                    observed: format!("bytes {}..{}\n{text}", l.start, l.end),
                });
            }
            // The first identifier the label message quotes must occur in the labelled text.
            if let Some(quoted) = l.message.split('`').nth(1) {
                let base: String = quoted.chars().take_while(|c| c.is_ascii_alphanumeric() || *c == '_' || *c == '$').collect();
                if !base.is_empty() && !generated_name(&base) && crate::space::prog::find_ident(&t, &base, 0).is_none() {
                    out.push(Violation {
                        signature: format!("label-text-lacks-identifier/{}", f.id),
                        what: format!("corpus {name}: the label message of `{}` talks about `{base}` but the labelled text is `{}`", f.short(), crate::infra::truncate(&t, 80)),
                        case: case.clone(),
                        expected: format!("labelled text mentions `{base}`"),
                        observed: format!("bytes {}..{} message `{}`\n{text}", l.start, l.end, l.message),
                    });
                }
            }
        }
    }
    out
}

pub fn check_variant(name: &str, text: &str, dir: &Path, case: &Value) -> (Vec<Violation>, usize) {
    match analyse(text, dir) {
        Ok(a) => {
            let labels = a.findings.iter().map(|f| f.primary.len() + f.secondary.len()).sum();
            (check_findings(name, text, &a.findings, &a.invalid_labels, case), labels)
        }
        Err(e) => (
            vec![Violation { signature: e, what: "analysis panicked".into(), case: case.clone(), expected: "completes".into(), observed: text.to_string() }],
            0,
        ),
    }
}

/// (c): the binary's line:col and the SARIF regions are those of the original bytes.
pub fn check_user_positions(name: &str, text: &str, dir: &Path, case: &Value) -> Vec<Violation> {
    let mut out = Vec::new();
    let Ok(a) = analyse(text, dir) else { return out };
    let sarif_file = dir.join("o.sarif");
    let run = run_bin(&BinOpts {
        args: vec!["d.circom".into(), "--level".into(), "info".into(), "--verbose".into(), "--sarif-file".into(), sarif_file.display().to_string()],
        cwd: dir,
        hash_seed: Some(1),
        timeout: Duration::from_secs(60),
        sarif_file: Some(sarif_file),
        mem_limit: None,
    });
    // Expected (id, line, col) of the first primary label of every located finding.
    let mut expected: Vec<String> = a
        .findings
        .iter()
        .filter_map(|f| f.primary.first().map(|l| (f, l)))
        .map(|(f, l)| {
            let (line, col) = line_col(text, l.start);
            format!("{}@{line}:{col}", f.id)
        })
        .collect();
    expected.sort();
    let mut shown: Vec<String> = run
        .diagnostics
        .iter()
        .filter_map(|d| d.location.as_ref().map(|(_, l, c)| format!("{}@{l}:{c}", d.id.clone().unwrap_or_default())))
        .collect();
    shown.sort();
    if expected != shown {
        out.push(Violation {
            signature: "displayed-line-column".into(),
            what: format!("corpus {name}: the line:column shown to the user is not that of the labelled bytes in the original file"),
            case: case.clone(),
            expected: format!("{expected:?}"),
            observed: format!("{shown:?}\n{text}"),
        });
    }
    // A label that spans several lines is displayed down to its last line.
    for f in &a.findings {
        let Some(l) = f.primary.first() else { continue };
        let (sl, sc) = line_col(text, l.start);
        let (el, _) = line_col(text, l.end.saturating_sub(1).max(l.start));
        if el <= sl {
            continue;
        }
        for d in run.diagnostics.iter().filter(|d| d.id.as_deref() == Some(f.id.as_str()) && d.location.as_ref().map(|(_, dl, dc)| *dl == sl && *dc == sc).unwrap_or(false)) {
            if d.snippet_lines.iter().copied().max().unwrap_or(0) < el {
                out.push(Violation {
                    signature: "displayed-label-extent".into(),
                    what: format!("corpus {name}: the label of `{}` covers lines {sl}-{el} but the terminal shows source lines {:?} only", f.short(), d.snippet_lines),
                    case: case.clone(),
                    expected: format!("the snippet reaches line {el}"),
                    observed: text.to_string(),
                });
                break;
            }
        }
    }
    if let Some(s) = &run.sarif {
        let (results, _) = sarif_results(s);
        let mut exp: Vec<String> = a
            .findings
            .iter()
            .flat_map(|f| f.primary.iter().map(move |l| (f, l)))
            .map(|(f, l)| {
                let (sl, sc) = line_col(text, l.start);
                let (el, ec) = line_col(text, l.end);
                format!("{}@{sl}:{sc}-{el}:{ec}", f.id)
            })
            .collect();
        exp.sort();
        let mut got: Vec<String> = results.iter().flat_map(|r| r.locations.iter().map(move |l| format!("{}@{}:{}-{}:{}", r.rule_id, l.1, l.2, l.3, l.4))).collect();
        got.sort();
        // Secondary labels are the related locations of the result, all of them.
        let mut exp_rel: Vec<String> = a
            .findings
            .iter()
            .flat_map(|f| f.secondary.iter().map(move |l| (f, l)))
            .map(|(f, l)| {
                let (sl, sc) = line_col(text, l.start);
                let (el, ec) = line_col(text, l.end);
                format!("{}@{sl}:{sc}-{el}:{ec}", f.id)
            })
            .collect();
        exp_rel.sort();
        let mut got_rel: Vec<String> = results.iter().flat_map(|r| r.related.iter().map(move |l| format!("{}@{}:{}-{}:{}", r.rule_id, l.1, l.2, l.3, l.4))).collect();
        got_rel.sort();
        if exp_rel != got_rel {
            out.push(Violation {
                signature: "sarif-related-region".into(),
                what: format!("corpus {name}: the related locations in SARIF are not exactly the secondary labels of the findings"),
                case: case.clone(),
                expected: format!("{exp_rel:?}"),
                observed: format!("{got_rel:?}"),
            });
        }
        if exp != got {
            out.push(Violation {
                signature: "sarif-region".into(),
                what: format!("corpus {name}: SARIF regions are not those of the labelled bytes in the original file"),
                case: case.clone(),
                expected: format!("{exp:?}"),
                observed: format!("{got:?}"),
            });
        }
    } else if !a.findings.is_empty() {
        out.push(Violation {
            signature: "sarif-missing".into(),
            what: format!("corpus {name}: no SARIF file although findings exist (a label could not be converted)"),
            case: case.clone(),
            expected: "a SARIF file".into(),
            observed: crate::infra::truncate(&run.stdout, 300),
        });
    }
    out
}

pub fn check_unclosed_location(name: &str, text: &str, opener: usize, dir: &Path, case: &Value) -> Vec<Violation> {
    let mut out = Vec::new();
    let Ok(a) = analyse(text, dir) else { return out };
    for bad in &a.invalid_labels {
        out.push(Violation {
            signature: "invalid-label/unterminated-comment".into(),
            what: format!("corpus {name}: {bad}"),
            case: case.clone(),
            expected: "a valid location".into(),
            observed: text.to_string(),
        });
    }
    for f in a.findings.iter().filter(|f| f.message.contains("Unterminated comment")) {
        if let Some(l) = f.primary.first() {
            if l.text.is_some() && !(l.start == opener || (l.start <= opener + 2 && l.start >= opener)) {
                out.push(Violation {
                    signature: "unterminated-comment-location".into(),
                    what: format!("corpus {name}: the unterminated comment opens at byte {opener} but the error points at byte {}", l.start),
                    case: case.clone(),
                    expected: format!("a label at the comment opener (byte {opener}, line:col {:?})", line_col(text, opener)),
                    observed: format!("byte {} (line:col {:?})", l.start, line_col(text, l.start.min(text.len()))),
                });
            }
        }
    }
    out
}


/// Multi-file project: `main.circom` (given on the command line) includes `lib.circom`.
/// Findings of main talk about definitions of lib and the other way round.
pub const PROJECT_MAIN: &str = "pragma circom 2.0.0;\ninclude \"lib.circom\";\n\ntemplate W(n) {\n    signal input in;\n    signal output out;\n    signal output aux;\n    component t = Two();\n    t.in <== in;\n    component b = Bits(254);\n    b.in <== in;\n    component ks[2];\n    for (var i = 0; i < 2; i++) {\n        ks[i] = Two();\n        ks[i].in <== in;\n    }\n    var x = h(n);\n    var in2 = x;\n    aux <-- in2 * in;\n    out <== t.o1;\n}\n\ncomponent main = W(2);\n";
pub const PROJECT_LIB: &str = "pragma circom 2.0.0;\n\nfunction h(a) {\n    var unused = 3;\n    return a * 2;\n}\n\ntemplate Two() {\n    signal input in;\n    signal output o1;\n    signal output o2;\n    o1 <== in;\n    o2 <-- in;\n}\n\ntemplate Bits(n) {\n    signal input in;\n    signal output out[n];\n    var lc = 0;\n    for (var i = 0; i < n; i++) {\n        out[i] <-- (in >> i) & 1;\n        out[i] * (out[i] - 1) === 0;\n        lc += out[i] * 2 ** i;\n    }\n    lc === in;\n}\n";

/// Prefixes that shift every offset (and line) of the file they are put in front of.
pub const PREFIXES: [&str; 4] = ["", "/* é */\n", "/* 漢字漢字漢字漢字漢字漢字漢字漢字漢字漢字漢字漢字漢字漢字漢字漢字 */\n\n\n", "// ü ü ü ü ü ü ü ü ü ü ü ü ü ü ü ü ü ü ü ü ü ü ü ü ü ü ü ü ü ü ü ü ü ü ü ü ü ü ü ü ü ü ü ü ü ü ü ü ü ü ü ü ü ü ü ü ü ü ü ü ü ü ü ü\n/* x\n\n\n\n\n\n\n\n\n\n\n\n\n\n\n\n\n\n\n\n\n\n\n\n\n\n\n\n\n\n\n\n\n\n\n\n\n\n\n\n\n\n*/\n"];

pub struct ProjectAnalysis {
    pub findings: Vec<Finding>,
    pub invalid: Vec<String>,
}

pub fn analyse_project(main: &str, lib: &str, dir: &Path) -> Result<ProjectAnalysis, String> {
    use crate::sut::runner;
    let files = runner::write_project(dir, &[("main.circom", main), ("lib.circom", lib)]);
    let mut loaded = runner::load(&files[..1], &[], program_structure::constants::Curve::Bn254).map_err(|p| p.signature())?;
    let collected = runner::analyze_all(&mut loaded).map_err(|p| p.signature())?;
    let flib = loaded.runner.file_library().clone();
    let mut findings = Vec::new();
    let mut invalid = Vec::new();
    // `analyze_all` hands the parse-stage reports to the collector first, as `main` does.
    for r in collected.reports.iter() {
        let f = runner::finding_of(r, &flib);
        for (kind, labels) in [("primary", &f.primary), ("secondary", &f.secondary)] {
            for l in labels {
                if l.text.is_none() {
                    invalid.push(format!("{} {kind} label {}..{} in {}: not a valid range of that file", f.short(), l.start, l.end, l.file));
                }
            }
        }
        findings.push(f);
    }
    Ok(ProjectAnalysis { findings, invalid })
}

fn base_name(p: &str) -> String {
    p.trim_start_matches("file://").rsplit('/').next().unwrap_or(p).to_string()
}

/// Checks of one multi-file variant: label validity, constructs under primary *and* secondary
/// labels, and - against `reference`, the position-independent form of the findings of the
/// undecorated project - that shifting either file leaves every labelled text unchanged (a label
/// that names the wrong file, or a range of another file, fails this).
pub fn check_project(main: &str, lib: &str, reference: Option<&Vec<String>>, binary: bool, dir: &Path, case: &Value) -> (Vec<Violation>, Vec<String>, usize) {
    let mut out = Vec::new();
    let a = match analyse_project(main, lib, dir) {
        Ok(a) => a,
        Err(e) => return (vec![Violation { signature: e, what: "analysis panicked".into(), case: case.clone(), expected: "completes".into(), observed: main.to_string() }], Vec::new(), 0),
    };
    let labels: usize = a.findings.iter().map(|f| f.primary.len() + f.secondary.len()).sum();
    out.extend(check_findings("project", main, &a.findings, &a.invalid, case));
    for f in &a.findings {
        for l in &f.secondary {
            let Some(raw) = &l.text else { continue };
            let t = squeeze(raw);
            if t.is_empty() || !is_construct(&t) {
                out.push(Violation {
                    signature: format!("secondary-not-a-construct/{}", f.id),
                    what: format!("multi-file project: the secondary label `{}` of `{}` covers `{}` in {}, which is not a statement, expression, declaration or parameter list", l.message, f.short(), crate::infra::truncate(raw, 80), base_name(&l.file)),
                    case: case.clone(),
                    expected: "a complete construct under the label".into(),
                    observed: format!("file {} bytes {}..{}", l.file, l.start, l.end),
                });
            }
        }
    }
    // Labelled texts are compared with comments and all white space removed: a decoration may sit
    // inside a labelled construct.
    let dense = |f: &Finding| super::decor::by_text(f).split_whitespace().collect::<String>();
    let form = super::decor::sorted(a.findings.iter().map(|f| format!("{} {}", dense(f), super::decor::sorted(f.primary.iter().chain(f.secondary.iter()).map(|l| base_name(&l.file)).collect()).join(","))).collect());
    // A comment between `pragma` and `circom` (one terminal with exactly one blank) is a parse
    // error, as is the same file with the comment blanked (C05 compares those two); such a variant
    // has no findings to compare with the reference.
    let parse_error = a.findings.iter().any(|f| f.id.starts_with('P') && f.level == "error");
    if let Some(reference) = reference.filter(|r| !parse_error || r.iter().any(|k| k.starts_with('P'))) {
        if *reference != form {
            let missing: Vec<&String> = reference.iter().filter(|k| !form.contains(k)).collect();
            let extra: Vec<&String> = form.iter().filter(|k| !reference.contains(k)).collect();
            let id = extra.first().or(missing.first()).map(|s| s.split('[').next().unwrap_or("")).unwrap_or("");
            out.push(Violation {
                signature: format!("project-shift-changes-labelled-text/{id}"),
                what: "multi-file project: putting a comment in front of one of the files changes the text a label covers (or the file it names)".into(),
                case: case.clone(),
                expected: format!("{missing:?}"),
                observed: format!("{extra:?}"),
            });
        }
    }
    if binary {
        let text_of = |file: &str| if base_name(file) == "lib.circom" { lib } else { main };
        let sarif_file = dir.join("o.sarif");
        let run = run_bin(&BinOpts {
            args: vec!["main.circom".into(), "--level".into(), "info".into(), "--verbose".into(), "--sarif-file".into(), sarif_file.display().to_string()],
            cwd: dir,
            hash_seed: Some(1),
            timeout: Duration::from_secs(60),
            sarif_file: Some(sarif_file),
            mem_limit: None,
        });
        // Findings the binary displays: those with a label in the user's file (or none at all).
        let displayed: Vec<&Finding> = a.findings.iter().filter(|f| f.primary.is_empty() || f.primary.iter().any(|l| l.user_input)).collect();
        let mut expected: Vec<String> = displayed
            .iter()
            .filter_map(|f| f.primary.first().map(|l| (f, l)))
            .map(|(f, l)| {
                let (line, col) = line_col(text_of(&l.file), l.start);
                format!("{}@{}:{line}:{col}", f.id, base_name(&l.file))
            })
            .collect();
        expected.sort();
        let mut shown: Vec<String> = run
            .diagnostics
            .iter()
            .filter_map(|d| d.location.as_ref().map(|(p, l, c)| format!("{}@{}:{l}:{c}", d.id.clone().unwrap_or_default(), base_name(p))))
            .collect();
        shown.sort();
        if expected != shown {
            out.push(Violation {
                signature: "project-displayed-line-column".into(),
                what: "multi-file project: the file:line:column shown to the user is not that of the labelled bytes".into(),
                case: case.clone(),
                expected: format!("{expected:?}"),
                observed: format!("{shown:?}"),
            });
        }
        if let Some(s) = &run.sarif {
            let (results, _) = sarif_results(s);
            for (what, pick_labels, pick_locs) in [
                ("primary", (|f: &Finding| f.primary.clone()) as fn(&Finding) -> Vec<crate::sut::runner::LabelInfo>, (|r: &crate::sut::bin::SarifResult| r.locations.clone()) as fn(&crate::sut::bin::SarifResult) -> Vec<(String, u64, u64, u64, u64, String)>),
                ("related", |f: &Finding| f.secondary.clone(), |r: &crate::sut::bin::SarifResult| r.related.clone()),
            ] {
                let mut exp: Vec<String> = displayed
                    .iter()
                    .flat_map(|f| pick_labels(f).into_iter().map(move |l| (f.id.clone(), l)))
                    .map(|(id, l)| {
                        let t = text_of(&l.file);
                        let (sl, sc) = line_col(t, l.start);
                        let (el, ec) = line_col(t, l.end);
                        format!("{id}@{}:{sl}:{sc}-{el}:{ec}", base_name(&l.file))
                    })
                    .collect();
                exp.sort();
                let mut got: Vec<String> = results.iter().flat_map(|r| pick_locs(r).into_iter().map(move |l| format!("{}@{}:{}:{}-{}:{}", r.rule_id, base_name(&l.0), l.1, l.2, l.3, l.4))).collect();
                got.sort();
                if exp != got {
                    out.push(Violation {
                        signature: format!("project-sarif-{what}-region"),
                        what: format!("multi-file project: SARIF {what} locations are not the file and region of the labelled bytes"),
                        case: case.clone(),
                        expected: format!("{exp:?}"),
                        observed: format!("{got:?}"),
                    });
                }
            }
        } else if !displayed.is_empty() {
            out.push(Violation {
                signature: "project-sarif-missing".into(),
                what: "multi-file project: no SARIF file although findings exist".into(),
                case: case.clone(),
                expected: "a SARIF file".into(),
                observed: crate::infra::truncate(&run.stdout, 300),
            });
        }
    }
    (out, form, labels)
}

/// Text of the two files of a project case: prefixes, then an optional decoration in one file.
pub fn project_texts(case: &Value) -> (String, String) {
    let pm = PREFIXES[case["main_prefix"].as_u64().unwrap_or(0) as usize % PREFIXES.len()];
    let pl = PREFIXES[case["lib_prefix"].as_u64().unwrap_or(0) as usize % PREFIXES.len()];
    let mut main = PROJECT_MAIN.to_string();
    let mut lib = PROJECT_LIB.to_string();
    if let (Some(file), Some(gap), Some(deco)) = (case["file"].as_str(), case["gap"].as_u64(), case["decoration"].as_u64()) {
        let target = if file == "lib" { &mut lib } else { &mut main };
        if let Some(at) = gaps(target).get(gap as usize) {
            *target = insert(target, *at, DECORATIONS[deco as usize % DECORATIONS.len()]);
        }
    }
    (format!("{pm}{main}"), format!("{pl}{lib}"))
}

pub fn variant_text(text: &str, gap: usize, deco: usize) -> Option<String> {
    let at = *gaps(text).get(gap)?;
    Some(insert(text, at, DECORATIONS[deco]))
}

pub fn run(run: &Run) {
    run.set_rule(
        "10 corpus files (every pass family, lifting warnings and errors, parse error, illegal sugar, re-assigned and unused parameters) x 12 \
         decorations {/*e-acute*/, // u-umlaut + newline, /***/, /* CJK */, CRLF, blank-tab-blank, and invalid \
         characters of 1-4 bytes in code: x-times, not-equal, emoji, #, e-acute, byte order mark} inserted at \
         every token gap (every 2nd in quick), plus: all line ends CRLF, a decoration in every gap at \
         once, a multi-byte character inside a log string; every label checked for validity and for \
         covering a complete construct; binary line:col and SARIF regions recomputed from the original \
         bytes on the base files and on 1 variant in 25; a two-file project (main includes lib; findings \
         of one file talking about definitions of the other) under 4 x 4 offset-shifting prefixes and \
         comment decorations at every gap of either file: validity, constructs under primary and \
         secondary labels, invariance of labelled texts and files, binary file:line:col and SARIF \
         primary/related regions; non-trivial = variant with at least one label",
    );
    let root = work_dir("c04");
    let files = corpus();
    let step = run.tier.pick(2, 1);
    let mut variants: Vec<(usize, usize, usize)> = Vec::new();
    for (ci, (_, text)) in files.iter().enumerate() {
        for gi in (0..gaps(text).len()).step_by(step) {
            for di in 0..DECORATIONS.len() {
                variants.push((ci, gi, di));
            }
        }
    }
    run.set_extra("variants", json!(variants.len()));
    par_each(&variants, |i, (ci, gi, di)| {
        let (name, text) = &files[*ci];
        let case = json!({"kind": "variant", "corpus": name, "gap": gi, "decoration": di});
        run.watch(&case);
        let Some(variant) = variant_text(text, *gi, *di) else { return };
        let dir = root.join(format!("{:?}", std::thread::current().id()).replace(|c: char| !c.is_ascii_alphanumeric(), ""));
        let (mut vs, labels) = check_variant(name, &variant, &dir, &case);
        if i % 25 == 0 {
            vs.extend(check_user_positions(name, &variant, &dir, &case));
        }
        run.eval(1);
        run.add_extra_count("labels_checked", labels as u64);
        if labels > 0 {
            run.nontrivial(1);
        }
        if i % 499 == 0 {
            run.outcome(&format!("{name}:labels>0={}", labels > 0));
            if run.want_sample() {
                run.sample(json!({"corpus": name, "decoration": DECORATIONS[*di], "gap": gi, "labels": labels}));
            }
        }
        run.violations(vs);
    });
    // Whole-file variants.
    for (name, text) in &files {
        let dir = root.join("whole");
        let mut wholes: Vec<(&str, String)> = vec![("base", text.clone()), ("crlf", text.replace('\n', "\r\n"))];
        // a decoration in every gap at once (inserted back to front so offsets stay valid)
        let mut all = text.clone();
        for at in gaps(text).into_iter().rev() {
            all = insert(&all, at, "/*é*/");
        }
        wholes.push(("every-gap", all));
        wholes.push(("multibyte-string", text.replacen("{\n", "{\n    log(\"漢字 ü\");\n", 1)));
        wholes.push(("bom-like-prefix", format!("/* ü */\n{text}")));
        for (kind, variant) in wholes {
            let case = json!({"kind": "whole", "corpus": name, "variant": kind});
            run.watch(&case);
            let (mut vs, labels) = check_variant(name, &variant, &dir, &case);
            vs.extend(check_user_positions(name, &variant, &dir, &case));
            run.eval(1);
            if labels > 0 {
                run.nontrivial(1);
            }
            run.add_extra_count("labels_checked", labels as u64);
            run.violations(vs);
        }
    }
    // The unterminated-comment error must point at the opener of that comment, also when
    // multi-byte text precedes it.
    for (name, text) in &files {
        let all = gaps(text);
        for (gi, at) in all.iter().enumerate().step_by(7) {
            for prefix in ["", "/* 漢字漢字 */\n", "// üüü\n"] {
                let variant = format!("{prefix}{}", insert(text, *at, "/* never closed "));
                let opener = prefix.len() + at;
                let case = json!({"kind": "unclosed", "corpus": name, "gap": gi, "prefix": prefix});
                run.watch(&case);
                let dir = root.join("unclosed");
                run.eval(1);
                run.nontrivial(1);
                run.violations(check_unclosed_location(name, &variant, opener, &dir, &case));
            }
        }
    }
    // Multi-file project: every pair of prefixes (shifting main and lib independently), and a
    // comment decoration at every gap of either file under two prefixes of the other file.
    {
        let dir = root.join("project-base");
        let base_case = json!({"kind": "project", "main_prefix": 0, "lib_prefix": 0});
        let (vs, reference, labels) = check_project(PROJECT_MAIN, PROJECT_LIB, None, true, &dir, &base_case);
        run.eval(1);
        run.nontrivial(1);
        run.add_extra_count("labels_checked", labels as u64);
        run.violations(vs);
        let mut cases: Vec<Value> = Vec::new();
        for pm in 0..PREFIXES.len() {
            for pl in 0..PREFIXES.len() {
                cases.push(json!({"kind": "project", "main_prefix": pm, "lib_prefix": pl}));
            }
        }
        for (file, text) in [("main", PROJECT_MAIN), ("lib", PROJECT_LIB)] {
            for gi in (0..gaps(text).len()).step_by(step) {
                for di in [0usize, 1, 3] {
                    for other in [0usize, 2] {
                        let (pm, pl) = if file == "main" { (0, other) } else { (other, 0) };
                        cases.push(json!({"kind": "project", "main_prefix": pm, "lib_prefix": pl, "file": file, "gap": gi, "decoration": di}));
                    }
                }
            }
        }
        run.set_extra("project_variants", json!(cases.len()));
        par_each(&cases, |i, case| {
            run.watch(case);
            let dir = root.join(format!("p{:?}", std::thread::current().id()).replace(|c: char| !c.is_ascii_alphanumeric(), ""));
            let (main, lib) = project_texts(case);
            let binary = case["file"].is_null() || i % 25 == 0;
            let (vs, _, labels) = check_project(&main, &lib, Some(&reference), binary, &dir, case);
            run.eval(1);
            if labels > 0 {
                run.nontrivial(1);
            }
            run.add_extra_count("labels_checked", labels as u64);
            if i % 97 == 0 {
                run.outcome(&format!("project:labels>0={}", labels > 0));
            }
            run.violations(vs);
        });
    }
    run.idle();
    let _ = std::fs::remove_dir_all(&root);
    run.assume("`complete construct` is judged by re-parsing the labelled text (comments blanked) with the real parser as a syntax oracle, or as an identifier list for parameter lists; parse errors may carry positional (zero-width) labels");
}

pub fn replay(case: &Value) -> Vec<Violation> {
    let files = corpus();
    let name = case["corpus"].as_str().unwrap_or("mixed");
    let Some((_, text)) = files.iter().find(|(n, _)| *n == name) else { return Vec::new() };
    let root = work_dir("c04-replay");
    let variant = match case["kind"].as_str() {
        Some("project") => {
            let reference = check_project(PROJECT_MAIN, PROJECT_LIB, None, false, &root, case).1;
            let (main, lib) = project_texts(case);
            let out = check_project(&main, &lib, Some(&reference), true, &root, case).0;
            let _ = std::fs::remove_dir_all(&root);
            return out;
        }
        Some("unclosed") => {
            let prefix = case["prefix"].as_str().unwrap_or("");
            let gi = case["gap"].as_u64().unwrap_or(0) as usize;
            let out = match gaps(text).get(gi) {
                Some(at) => check_unclosed_location(name, &format!("{prefix}{}", insert(text, *at, "/* never closed ")), prefix.len() + at, &root, case),
                None => Vec::new(),
            };
            let _ = std::fs::remove_dir_all(&root);
            return out;
        }
        Some("variant") => variant_text(text, case["gap"].as_u64().unwrap_or(0) as usize, case["decoration"].as_u64().unwrap_or(0) as usize % DECORATIONS.len()),
        Some("whole") => match case["variant"].as_str() {
            Some("crlf") => Some(text.replace('\n', "\r\n")),
            Some("every-gap") => {
                let mut all = text.clone();
                for at in gaps(text).into_iter().rev() {
                    all = insert(&all, at, "/*é*/");
                }
                Some(all)
            }
            Some("multibyte-string") => Some(text.replacen("{\n", "{\n    log(\"漢字 ü\");\n", 1)),
            Some("bom-like-prefix") => Some(format!("/* ü */\n{text}")),
            _ => Some(text.clone()),
        },
        _ => None,
    };
    let out = match variant {
        Some(v) => {
            let (mut vs, _) = check_variant(name, &v, &root, case);
            vs.extend(check_user_positions(name, &v, &root, case));
            vs
        }
        None => Vec::new(),
    };
    let _ = std::fs::remove_dir_all(&root);
    out
}

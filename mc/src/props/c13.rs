//! C13 — the CFG contains every source execution, statement by statement: for every decision
//! string (loops unrolled up to K per entry) the structural walker over the generator's syntax
//! and the walker over the real CFG must emit the same statement sequence.
use super::cfgcheck::{dump_cfg, marker_def_for, MARKER_ATOM_KINDS};
use crate::infra::{par_each, Run, Violation};
use crate::refsem::walk::{explore_paths, walk_cfg, CfgEnd, SrcWalk};
use crate::space::prog::{print_def, Def, Printed};
use crate::space::skel::{enumerate, Sk, SkelOpts};
use crate::sut::pipe::{self};
use program_structure::cfg::Cfg;
use program_structure::constants::Curve;
use serde_json::{json, Value};

fn opts(sweep: &str, max_stmts: usize) -> SkelOpts {
    let full = sweep == "full" || sweep == "atoms";
    SkelOpts {
        max_stmts,
        max_depth: 3,
        allow_for: true,
        allow_bare: full,
        allow_block: full,
        allow_empty_body: full,
    }
}

pub struct PathStats {
    pub paths: usize,
    pub decisions: usize,
    pub states: usize,
    pub capped: bool,
}

pub fn compare_walk(cfg: &Cfg, walk: &SrcWalk, printed: &Printed, case: &Value, phase: &str) -> Option<Violation> {
    let cw = walk_cfg(cfg, &walk.decisions);
    let show = |evs: &[crate::refsem::walk::Event]| {
        evs.iter().map(|e| format!("{}@{}..{}:{}", e.kind, e.span.start, e.span.end, e.text)).collect::<Vec<_>>().join(" ; ")
    };
    let decisions: String = walk.decisions.iter().map(|d| if *d { 'T' } else { 'F' }).collect();
    let mk = |sig: &str, what: String| Violation {
        signature: format!("{sig}/{phase}"),
        what,
        case: {
            let mut c = case.clone();
            c["decisions"] = json!(decisions);
            c
        },
        expected: format!("source: {}", show(&walk.events)),
        observed: format!("cfg ({:?}): {}\n{}\n{}", cw.end, show(&cw.events), printed.text, dump_cfg(cfg)),
    };
    if let CfgEnd::Malformed(m) = &cw.end {
        return Some(mk("malformed-graph", format!("walk hit a malformed graph: {m}")));
    }
    let n = walk.events.len();
    if cw.events.len() < n || cw.events[..n] != walk.events[..] {
        let first = walk.events.iter().zip(cw.events.iter()).position(|(a, b)| a != b).unwrap_or(cw.events.len().min(n));
        let sig = if first < n && first < cw.events.len() && walk.events[first].kind != cw.events[first].kind {
            "sequence-kind"
        } else if first >= cw.events.len() {
            "sequence-short"
        } else {
            "sequence-differs"
        };
        return Some(mk(sig, format!("statement sequences differ at position {first} under decisions {decisions}")));
    }
    if !walk.returned {
        // The source ran to its end: the graph walk must end there too, with every decision used.
        if cw.events.len() != n || cw.end != CfgEnd::Exit || cw.consumed != walk.decisions.len() {
            return Some(mk(
                "sequence-tail",
                format!("the graph walk goes on (or asks for decisions) after the source program ended, decisions {decisions}"),
            ));
        }
    }
    None
}

pub fn check_def(def: &Def, unroll: usize, case: &Value, max_paths: usize) -> (Vec<Violation>, PathStats) {
    let printed = print_def(def);
    let mut out = Vec::new();
    let mut stats = PathStats { paths: 0, decisions: 0, states: 0, capped: false };
    let ast = match pipe::parse(&printed.text) {
        Ok(Some(ast)) => ast,
        _ => {
            out.push(Violation {
                signature: "MACHINERY-not-parsed".into(),
                what: "generated program rejected by the parser".into(),
                case: case.clone(),
                expected: "accepted".into(),
                observed: printed.text.clone(),
            });
            return (out, stats);
        }
    };
    let cfg = match pipe::to_cfg(&ast, &Curve::Bn254) {
        Ok((cfg, _)) => cfg,
        Err(_) => {
            out.push(Violation {
                signature: "MACHINERY-not-lifted".into(),
                what: "generated program did not lift".into(),
                case: case.clone(),
                expected: "a CFG".into(),
                observed: printed.text.clone(),
            });
            return (out, stats);
        }
    };
    // The same walk on the SSA form (phi statements skipped): conversion must preserve paths.
    let ssa = pipe::to_cfg(&ast, &Curve::Bn254).ok().and_then(|(c, _)| pipe::to_ssa(c).ok());
    let mut found: Option<Violation> = None;
    let result = explore_paths(&def.body, &printed, unroll, max_paths, &mut |walk| {
        stats.decisions += walk.decisions.len();
        stats.states += walk.branch_visits + 1;
        if found.is_none() {
            found = compare_walk(&cfg, walk, &printed, case, "cfg");
            if found.is_none() {
                if let Some(ssa) = &ssa {
                    found = compare_walk(ssa, walk, &printed, case, "ssa");
                }
            }
        }
    });
    match result {
        Some(paths) => stats.paths = paths,
        None => {
            stats.paths = max_paths;
            stats.capped = true;
        }
    }
    out.extend(found);
    (out, stats)
}

fn digits(mut i: usize, radix: usize, n: usize) -> Vec<usize> {
    let mut v = Vec::with_capacity(n);
    for _ in 0..n {
        v.push(i % radix);
        i /= radix;
    }
    v
}

fn sweep(run: &Run, name: &str, skels: &[Vec<Sk>], max: usize, unroll: usize, atom_kinds: usize) {
    par_each(skels, |i, skel| {
        let atoms: usize = skel.iter().map(|s| s.atoms()).sum();
        let fors: usize = skel.iter().map(|s| s.fors()).sum();
        let combos = atom_kinds.pow(atoms as u32);
        for combo in 0..combos {
          // All header-form combinations in the `atoms` sweep; uniform forms elsewhere.
          let forms = super::cfgcheck::FOR_FORMS;
          let for_combos: Vec<usize> = if name == "atoms" {
              (0..forms.pow(fors as u32)).collect()
          } else if fors == 0 {
              vec![0]
          } else {
              // uniform header forms: all declaration, all assignment (the two-name declaration
              // is covered by the `atoms` sweep)
              (0..2usize).map(|f| (0..fors).map(|i| f * forms.pow(i as u32)).sum()).collect()
          };
          for for_combo in for_combos {
            let for_choice = digits(for_combo, forms, fors);
            for (is_function, prologue) in [(true, true), (false, true), (true, false), (false, false)] {
                let choice = digits(combo, atom_kinds, atoms);
                let case = json!({"kind": "skeleton", "sweep": name, "max_stmts": max, "index": i,
                    "function": is_function, "unroll": unroll, "atoms": choice, "prologue": prologue, "fors": for_choice});
                let def = marker_def_for(skel, is_function, choice, prologue, for_choice.clone());
                if super::c10::has_bare_declaration(&def.body) {
                    // The grammar does not admit a declaration as an unbraced body.
                    continue;
                }
                run.watch(&case);
                let (violations, stats) = check_def(&def, unroll, &case, 50_000);
                run.eval(1);
                run.add_traces(stats.paths as u64);
                run.add_transitions(stats.decisions as u64);
                run.add_states(stats.states as u64);
                if stats.paths > 1 {
                    run.nontrivial(1);
                }
                if stats.capped {
                    run.cap("a program exceeded 50000 paths; remaining paths of that program not explored");
                }
                if (i + combo) % 499 == 0 {
                    run.outcome(&format!("paths={}", stats.paths.min(64)));
                    if run.want_sample() && stats.paths >= 3 {
                        run.sample(json!({"program": print_def(&def).text, "paths": stats.paths, "unroll": unroll}));
                    }
                }
                run.violations(violations);
            }
          }
        }
    });
}

pub fn run(run: &Run) {
    let unroll = run.tier.pick(2, 3);
    let full = 4;
    let deep = run.tier.pick(5, 6);
    let atoms = 3;
    run.set_rule(&format!(
        "sweep `full`: every skeleton <= {full} statements (depth <= 3; braced, empty and bare \
         bodies, blocks, for) with marker atoms; sweep `deep`: braced non-empty bodies <= {deep} \
         statements; sweep `atoms`: every skeleton <= {atoms} statements with every atom drawn from \
         {{x = k, x += k, x--, return x | assert(x), var a = x, b = a + 1}}; each as function and template, with and without a `var x = 0;` prologue, every `for` in three header forms (`var i = 0` / assignment to an existing variable / `var i = 0, j = i + 1`); for each \
         program every decision string with loops unrolled <= {unroll} times per entry, walked in \
         lock-step on the generator's syntax and on the real CFG (before and after SSA); \
         (thorough: also the full sweep <= 5 statements with loops unrolled <= 2 times); 50 single-statement forms (every infix and prefix operator, element copies inside one array, self-assignment); non-trivial = program with more than one path"
    ));
    run.set_extra("unroll_bound", json!(unroll));
    let mut sweeps = vec![("full", full, 1, 2), ("deep", deep, 1, 2), ("atoms", atoms, MARKER_ATOM_KINDS, 2)];
    if run.tier == crate::infra::Tier::Thorough {
        // Deeper unrolling where the path count stays enumerable, and one more statement in the
        // full sweep at the quick tier's unrolling bound.
        sweeps.push(("deep", 5, 1, unroll));
        sweeps.push(("atoms", atoms, MARKER_ATOM_KINDS, unroll));
        sweeps.push(("full", 5, 1, 2));
    }
    for (name, max, kinds, unroll) in sweeps {
        let skels = enumerate(opts(name, max));
        run.set_extra(&format!("skeletons_{name}_{max}"), json!(skels.len()));
        let t0 = std::time::Instant::now();
        sweep(run, name, &skels, max, unroll, kinds);
        eprintln!("[C13] sweep {name} <= {max} statements, unroll {unroll}: {} skeletons, {:.1}s", skels.len(), t0.elapsed().as_secs_f64());
    }
    // Statement forms: one function per form; the statement met on the graph must read exactly as
    // written (every operator keeps its meaning, element copies inside one array are kept, ...).
    {
        use crate::space::prog::{Atom, Def, DefKind, Ev, Node};
        let mut forms: Vec<String> = Vec::new();
        for op in ["*", "/", "+", "-", "**", "\\", "%", "<<", ">>", "<=", ">=", "<", ">", "==", "!=", "||", "&&", "|", "&", "^"] {
            forms.push(format!("x = n {op} 3"));
            forms.push(format!("x = (n {op} x) {op} 2"));
        }
        for op in ["-", "!", "~"] {
            forms.push(format!("x = {op}n"));
        }
        for f in ["x = x", "a[1] = a[0]", "a[n] = a[n - 1]", "a[0] = a[0] + 1", "x = n ? x : 2", "x = a[x]", "a[x] = x"] {
            forms.push(f.to_string());
        }
        run.set_extra("statement_forms", json!(forms.len()));
        for (i, form) in forms.iter().enumerate() {
            let body = vec![
                Node::Atom(Atom::decl_var_init("x", "1")),
                Node::Atom(Atom::new("var a[4] = [1, 2, 3, 4]", vec![Ev::Decl("var a[4]".into()), Ev::Assign("a = [1, 2, 3, 4]".into())])),
                Node::Atom(Atom::new(form, vec![Ev::Assign(form.clone())])),
                Node::Atom(Atom::ret("x + a[1]")),
            ];
            let def = Def { kind: DefKind::Function, name: "f".into(), params: vec!["n".into()], body };
            let case = json!({"kind": "statement-form", "index": i, "form": form});
            run.watch(&case);
            let (violations, _) = check_def(&def, 2, &case, 100);
            run.eval(1);
            run.nontrivial(1);
            run.violations(violations);
        }
    }
    // Route B: the graph the real runner builds from a file (with and without main component),
    // every skeleton of <= 3 statements.
    let root = crate::infra::work_dir("c13");
    let small = enumerate(opts("full", 3));
    run.set_extra("skeletons_via_runner", json!(small.len()));
    par_each(&small, |i, skel| {
        let dir = root.join(format!("{:?}", std::thread::current().id()).replace(|c: char| !c.is_ascii_alphanumeric(), ""));
        let fors: usize = skel.iter().map(|s| s.fors()).sum();
        let atoms: usize = skel.iter().map(|s| s.atoms()).sum();
        // The last two variants use tuple declarations as atoms (sugar, templates only).
        for (is_function, with_main, form, atom_kind) in [(true, false, 0, 0), (false, false, 1, 0), (false, true, 0, 0), (false, false, 0, 5), (false, true, 2, 5)] {
            let case = json!({"kind": "skeleton-runner", "index": i, "function": is_function, "main": with_main, "form": form, "unroll": unroll, "atom_kind": atom_kind});
            run.watch(&case);
            let def = marker_def_for(skel, is_function, vec![atom_kind; atoms], true, vec![form; fors]);
            if super::c10::has_bare_declaration(&def.body) || (atom_kind == 5 && has_bare_atom(&def.body)) {
                continue;
            }
            let (vs, stats) = check_def_via_runner(&def, unroll, with_main, &dir, &case);
            run.eval(1);
            run.add_traces(stats.paths as u64);
            run.add_transitions(stats.decisions as u64);
            run.add_states(stats.states as u64);
            run.violations(vs);
        }
    });
    let _ = std::fs::remove_dir_all(&root);
    run.assume("paths are explored up to the unrolling bound; longer iterations are covered only by the small-scope argument");
}

/// A declaration (here: a tuple declaration) cannot be an unbraced body.
fn has_bare_atom(nodes: &[crate::space::prog::Node]) -> bool {
    use crate::space::prog::{Body, Node};
    fn body(b: &Body) -> bool {
        match b {
            Body::Bare(n) => matches!(n.as_ref(), Node::Atom(_)) || has_bare_atom(std::slice::from_ref(n.as_ref())),
            Body::Braced(ns) => has_bare_atom(ns),
        }
    }
    nodes.iter().any(|n| match n {
        Node::Atom(_) => false,
        Node::If { then, els, .. } => body(then) || els.as_ref().map(body).unwrap_or(false),
        Node::While { body: b, .. } | Node::For { body: b, .. } => body(b),
        Node::Block(ns) => has_bare_atom(ns),
    })
}

pub fn check_def_via_runner(def: &Def, unroll: usize, with_main: bool, dir: &std::path::Path, case: &Value) -> (Vec<Violation>, PathStats) {
    let printed = print_def(def);
    let mut stats = PathStats { paths: 0, decisions: 0, states: 0, capped: false };
    let function = def.kind == crate::space::prog::DefKind::Function;
    let cfg = match pipe::lift_via_runner(&printed.text, dir, &def.name, function, with_main) {
        Ok(cfg) => cfg,
        Err(_) => {
            return (
                vec![Violation {
                    signature: "runner-rejects-program".into(),
                    what: "a marker program does not lift through the runner".into(),
                    case: case.clone(),
                    expected: "a CFG".into(),
                    observed: printed.text.clone(),
                }],
                stats,
            )
        }
    };
    let mut found: Option<Violation> = None;
    let result = explore_paths(&def.body, &printed, unroll, 20_000, &mut |walk| {
        stats.decisions += walk.decisions.len();
        stats.states += walk.branch_visits + 1;
        if found.is_none() {
            found = compare_walk(&cfg, walk, &printed, case, "runner");
        }
    });
    stats.paths = result.unwrap_or(20_000);
    (found.into_iter().collect(), stats)
}

pub fn replay(case: &Value) -> Vec<Violation> {
    if case["kind"].as_str() == Some("skeleton-runner") {
        let root = crate::infra::work_dir("c13-replay");
        let skels = enumerate(opts("full", 3));
        let out = match skels.get(case["index"].as_u64().unwrap_or(0) as usize) {
            Some(skel) => {
                let fors: usize = skel.iter().map(|s| s.fors()).sum();
                let atoms: usize = skel.iter().map(|s| s.atoms()).sum();
                let def = marker_def_for(skel, case["function"].as_bool().unwrap_or(true), vec![case["atom_kind"].as_u64().unwrap_or(0) as usize; atoms], true, vec![case["form"].as_u64().unwrap_or(0) as usize; fors]);
                check_def_via_runner(&def, case["unroll"].as_u64().unwrap_or(2) as usize, case["main"].as_bool().unwrap_or(false), &root, case).0
            }
            None => Vec::new(),
        };
        let _ = std::fs::remove_dir_all(&root);
        return out;
    }
    let max = case["max_stmts"].as_u64().unwrap_or(5) as usize;
    let index = case["index"].as_u64().unwrap_or(0) as usize;
    let is_function = case["function"].as_bool().unwrap_or(true);
    let unroll = case["unroll"].as_u64().unwrap_or(2) as usize;
    let choice: Vec<usize> = case["atoms"]
        .as_array()
        .map(|a| a.iter().map(|v| v.as_u64().unwrap_or(0) as usize).collect())
        .unwrap_or_default();
    let sweep = case["sweep"].as_str().unwrap_or("full");
    let skels = enumerate(opts(sweep, max));
    match skels.get(index) {
        Some(skel) => {
            let fors: Vec<usize> = case["fors"]
                .as_array()
                .map(|a| a.iter().map(|v| v.as_u64().unwrap_or(0) as usize).collect())
                .unwrap_or_default();
            let def = marker_def_for(skel, is_function, choice, case["prologue"].as_bool().unwrap_or(true), fors);
            check_def(&def, unroll, case, 50_000).0
        }
        None => Vec::new(),
    }
}

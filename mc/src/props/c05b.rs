//! C05 part (b): comments are transparent through the whole pipeline. For every corpus file, every
//! token gap and every comment shape, the file with the comment and the file with the comment
//! replaced by blanks of the same length (the reference lexer does the blanking) must yield the
//! same findings at the same byte positions; an unclosed block comment must yield an error.
use super::decor::{analyse, by_position, corpus, gaps, insert, sorted};
use crate::infra::{par_each, work_dir, Run, Violation};
use crate::refsem::lexer::blank_comments;
use serde_json::{json, Value};
use std::path::Path;

pub const SHAPES: [&str; 14] = [
    "/**/", "/***/", "/* x **/", "/*/ */", "//*\n", "// \"\n", "/* \" */", "/* é */", "/* // */", "// /*\n", "/* * / */", "/*\n*/",
    // many multi-byte characters: byte and character offsets after the comment differ by more
    // than a line
    "/* 漢字漢字漢字漢字漢字漢字漢字漢字漢字漢字漢字漢字漢字漢字漢字漢字 */",
    "// üüüüüüüüüüüüüüüüüüüüüüüüüüüüüüüüüüüüüüüüüüüüüüüüüüüüüüüüüüüüüüüü\n",
];

pub fn check_variant(name: &str, text: &str, dir: &Path, case: &Value) -> Vec<Violation> {
    let mut out = Vec::new();
    let Some(blanked) = blank_comments(text) else { return out };
    // Both variants are written to the same path, one after the other (messages may quote it).
    let a = analyse(text, &dir.join("c"));
    let b = analyse(&blanked, &dir.join("c"));
    match (a, b) {
        (Ok(a), Ok(b)) => {
            let fa = sorted(a.findings.iter().map(by_position).collect());
            let fb = sorted(b.findings.iter().map(by_position).collect());
            if fa != fb {
                let missing: Vec<&String> = fb.iter().filter(|x| !fa.contains(x)).collect();
                let extra: Vec<&String> = fa.iter().filter(|x| !fb.contains(x)).collect();
                let id = missing.first().or(extra.first()).map(|s| s.split_whitespace().next().unwrap_or("").to_string()).unwrap_or_default();
                let sig = if a.findings.len() != b.findings.len() { "comment-changes-findings" } else { "comment-moves-findings" };
                out.push(Violation {
                    signature: format!("{sig}/{id}"),
                    what: format!("corpus {name}: replacing the comment by blanks of the same length changes the findings"),
                    case: case.clone(),
                    expected: format!("with blanks: {fb:?}"),
                    observed: format!("with the comment: only-with-blanks {missing:?} only-with-comment {extra:?}\n{text}"),
                });
            }
        }
        (Err(e), _) | (_, Err(e)) => out.push(Violation {
            signature: e,
            what: format!("corpus {name}: analysis panicked on a commented variant"),
            case: case.clone(),
            expected: "analysis completes".into(),
            observed: text.to_string(),
        }),
    }
    out
}

pub fn check_unclosed(name: &str, text: &str, dir: &Path, case: &Value) -> Vec<Violation> {
    let mut out = Vec::new();
    match analyse(text, dir) {
        Ok(a) => {
            if !a.findings.iter().any(|f| f.level == "error") {
                out.push(Violation {
                    signature: "unclosed-comment-not-reported".into(),
                    what: format!("corpus {name}: a block comment that is never closed swallows the rest of the file without an error"),
                    case: case.clone(),
                    expected: "an error for the unclosed block comment".into(),
                    observed: format!("{:?}\n{text}", a.findings.iter().map(|f| f.short()).collect::<Vec<_>>()),
                });
            }
        }
        Err(e) => out.push(Violation { signature: e, what: "analysis panicked".into(), case: case.clone(), expected: "completes".into(), observed: text.to_string() }),
    }
    out
}

pub fn run(run: &Run) {
    run.set_rule(
        "part (b): 10 corpus files (one without any token) x every token gap x 14 comment shapes {/**/, /***/, /* x **/, /*/ */, //*, // \", \
         /* \" */, /* e-acute */, /* // */, // /*, /* * / */, multi-line, 32 CJK characters, 64 u-umlaut}, commented file vs the same file \
         with the comment blanked: identical findings at identical byte positions; unclosed `/*` at every \
         gap (a slice) must yield an error",
    );
    let root = work_dir("c05b");
    let mut variants: Vec<(usize, usize, usize)> = Vec::new();
    let files = corpus();
    let step = run.tier.pick(3, 1);
    for (ci, (_, text)) in files.iter().enumerate() {
        for (gi, _) in gaps(text).iter().enumerate() {
            for si in 0..SHAPES.len() {
                // quick: every third (gap, shape) combination, rotating so that every gap and every
                // shape is used
                if (gi + si) % step == 0 {
                    variants.push((ci, gi, si));
                }
            }
        }
    }
    run.set_extra("pipeline_variants", json!(variants.len()));
    par_each(&variants, |i, (ci, gi, si)| {
        let (name, text) = &files[*ci];
        let at = gaps(text)[*gi];
        let case = json!({"kind": "pipeline", "corpus": name, "gap": gi, "shape": si});
        run.watch(&case);
        let variant = insert(text, at, SHAPES[*si]);
        let dir = root.join(format!("{:?}", std::thread::current().id()).replace(|c: char| !c.is_ascii_alphanumeric(), ""));
        let vs = check_variant(name, &variant, &dir, &case);
        run.eval(1);
        run.nontrivial(1);
        if i % 499 == 0 {
            run.outcome(&format!("pipeline:{name}:{}", if vs.is_empty() { "same" } else { "differs" }));
            if run.want_sample() {
                run.sample(json!({"corpus": name, "comment": SHAPES[*si], "inserted_at_byte": at}));
            }
        }
        run.violations(vs);
        // Unclosed comment at this gap (one shape is enough).
        if *si == 0 && gi % 4 == 0 {
            let case = json!({"kind": "unclosed", "corpus": name, "gap": gi});
            let variant = insert(text, at, "/* never closed ");
            run.eval(1);
            run.violations(check_unclosed(name, &variant, &dir, &case));
        }
    });
    let _ = std::fs::remove_dir_all(&root);
}

pub fn replay(case: &Value) -> Vec<Violation> {
    let files = corpus();
    let name = case["corpus"].as_str().unwrap_or("mixed");
    let Some((_, text)) = files.iter().find(|(n, _)| *n == name) else { return Vec::new() };
    let gi = case["gap"].as_u64().unwrap_or(0) as usize;
    let Some(at) = gaps(text).get(gi).copied() else { return Vec::new() };
    let root = work_dir("c05b-replay");
    let out = match case["kind"].as_str() {
        Some("pipeline") => check_variant(name, &insert(text, at, SHAPES[case["shape"].as_u64().unwrap_or(0) as usize % SHAPES.len()]), &root, case),
        Some("unclosed") => check_unclosed(name, &insert(text, at, "/* never closed "), &root, case),
        _ => Vec::new(),
    };
    let _ = std::fs::remove_dir_all(&root);
    out
}

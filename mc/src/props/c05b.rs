//! C05 part (b): placeholder until the pipeline findings driver exists.
use crate::infra::{Run, Violation};
use serde_json::Value;

pub fn run(_run: &Run) {}

pub fn replay(_case: &Value) -> Vec<Violation> {
    Vec::new()
}

//! C10 — names resolve by lexical scope and every shadowing declaration is reported.
//! Programs: skeletons whose atoms declare / assign / read identifiers from {x, x_0, y}, loops
//! declaring `x` or `x_0`, parameter lists {(n,x), (n,x_0), (n,x,y)}. Oracle: a lexical scope
//! resolver on the generator's syntax; (1) after into_cfg two occurrences carry the same
//! (name, suffix) iff they resolve to the same declaration and the name part is the source
//! identifier; (2) the SSA audits of C14 hold; (3) through the runner, a shadowing warning is
//! displayed for exactly the declarations that redeclare a visible name, with the shadowed
//! declaration as secondary location.
use super::c14;
use crate::infra::{par_each, work_dir, Run, Violation};
use crate::space::prog::{print_def, Atom, Body, Cond, Def, DefKind, Ev, Node, Printed, Role, SpanKind};
use crate::space::skel::{enumerate, instantiate, Filler, Sk, SkelOpts};
use crate::sut::pipe;
use crate::sut::runner::{self, finding_of};
use program_structure::constants::Curve;
use program_structure::ir::{AccessType, Expression, LogArgument, Statement, VariableName};
use serde_json::{json, Value};
use std::collections::{BTreeSet, HashMap};
use std::ops::Range;
use std::path::Path;

pub const NAMES: [&str; 3] = ["x", "x_0", "y"];
pub const ATOMS: usize = 8;
pub const PARAMS: [&[&str]; 3] = [&["n", "x"], &["n", "x_0"], &["n", "x", "y"]];

struct ScopeFiller {
    atoms: Vec<usize>,
    ai: usize,
    k: usize,
    loops: usize,
    loop_names: Vec<usize>,
    /// 0: the declaration / assignment alphabet; 1: the position alphabet (one declaration and
    /// reads of `x` at every syntactic position an identifier can occur in).
    alphabet: usize,
    template: bool,
}

impl Filler for ScopeFiller {
    fn atom(&mut self) -> Atom {
        let c = self.atoms.get(self.ai).copied().unwrap_or(0);
        self.ai += 1;
        self.k += 1;
        let k = self.k;
        if self.alphabet == 1 {
            return match c {
                0 => Atom::decl_var_init("x", &k.to_string()).with_idents(vec![("x", Role::Decl)]),
                1 => Atom::assign("a[x]", &k.to_string()).with_idents(vec![("a", Role::Write), ("x", Role::Read)]),
                2 => Atom::assign("r", "r + a[x]").with_idents(vec![("r", Role::Write), ("r", Role::Read), ("a", Role::Read), ("x", Role::Read)]),
                3 if self.template => Atom::new(&format!("c.in[x] <== {k}"), vec![Ev::Assign(format!("c.in[x] <== {k}"))]).with_idents(vec![("c", Role::Write), ("x", Role::Read)]),
                3 => Atom::assign("r", "g(x, r)").with_idents(vec![("r", Role::Write), ("x", Role::Read), ("r", Role::Read)]),
                4 => Atom::assign("r", "(x > 0) ? x : r").with_idents(vec![("r", Role::Write), ("x", Role::Read), ("x", Role::Read), ("r", Role::Read)]),
                5 => {
                    let mut a = Atom::new("log(x)", vec![]).with_idents(vec![("x", Role::Read)]);
                    a.span_includes_semi = true;
                    a
                }
                6 => Atom::new(&format!("var b{k}[x]"), vec![Ev::Decl(format!("var b{k}"))]).with_idents(vec![(&format!("b{k}"), Role::Decl), ("x", Role::Read)]),
                _ => Atom::assign("a[a[x]]", "x").with_idents(vec![("a", Role::Write), ("a", Role::Read), ("x", Role::Read), ("x", Role::Read)]),
            };
        }
        match c {
            0 => Atom::decl_var_init("x", &k.to_string()).with_idents(vec![("x", Role::Decl)]),
            1 => Atom::decl_var_init("x_0", &k.to_string()).with_idents(vec![("x_0", Role::Decl)]),
            2 => Atom::decl_var_init("y", &k.to_string()).with_idents(vec![("y", Role::Decl)]),
            3 => Atom::assign("x", &k.to_string()).with_idents(vec![("x", Role::Write)]),
            4 => Atom::assign("x_0", &k.to_string()).with_idents(vec![("x_0", Role::Write)]),
            5 => Atom::assign("r", &format!("r + x + {k}")).with_idents(vec![("r", Role::Write), ("r", Role::Read), ("x", Role::Read)]),
            6 => Atom::assign("r", &format!("r + x_0 + {k}")).with_idents(vec![("r", Role::Write), ("r", Role::Read), ("x_0", Role::Read)]),
            _ => Atom::assign("x", &format!("x_0 + y + {k}")).with_idents(vec![("x", Role::Write), ("x_0", Role::Read), ("y", Role::Read)]),
        }
    }
    fn cond(&mut self, _is_loop: bool) -> Cond {
        self.k += 1;
        Cond::new(&format!("n > {}", self.k)).with_reads(&["n"])
    }
    fn for_header(&mut self) -> (Atom, Cond, Atom) {
        let choice = self.loop_names.get(self.loops).copied().unwrap_or(0);
        self.loops += 1;
        let v = ["x", "x_0"][choice % 2];
        (
            Atom::decl_var_init(v, "0").with_idents(vec![(v, Role::Decl)]),
            Cond::new(&format!("{v} < n")).with_reads(&[v, "n"]),
            Atom::new(&format!("{v}++"), vec![Ev::Assign(format!("{v} = {v} + 1"))]).with_idents(vec![(v, Role::Write)]),
        )
    }
}

pub fn build(skel: &[Sk], atoms: &[usize], loop_names: &[usize], params: usize, template: bool) -> Def {
    build_with(skel, atoms, loop_names, params, template, 0)
}

/// Template instantiated by the position alphabet (appended to the file given to the runner).
pub const SUB: &str = "template Sub(n) {\n    signal input in[n];\n    signal output out;\n    out <== in[0];\n}\nfunction g(u, v) {\n    return u + v;\n}\n";

pub fn build_with(skel: &[Sk], atoms: &[usize], loop_names: &[usize], params: usize, template: bool, alphabet: usize) -> Def {
    let mut filler = ScopeFiller { atoms: atoms.to_vec(), ai: 0, k: 0, loops: 0, loop_names: loop_names.to_vec(), alphabet, template };
    let mut body = vec![Node::Atom(Atom::decl_var_init("r", "0").with_idents(vec![("r", Role::Decl)]))];
    if alphabet == 1 {
        body.push(Node::Atom(Atom::new("var a[4]", vec![Ev::Decl("var a".into())]).with_idents(vec![("a", Role::Decl)])));
        if template {
            body.push(Node::Atom(Atom::new("component c = Sub(4)", vec![]).with_idents(vec![("c", Role::Decl)])));
        }
    }
    body.extend(instantiate(skel, &mut filler));
    if template {
        let mut a = Atom::new("assert(r)", vec![Ev::Assert("assert(r)".into())]).with_idents(vec![("r", Role::Read)]);
        a.span_includes_semi = true;
        body.push(Node::Atom(a));
    } else {
        body.push(Node::Atom(Atom::ret("r").with_idents(vec![("r", Role::Read)])));
    }
    Def {
        kind: if template { DefKind::Template } else { DefKind::Function },
        name: "M".into(),
        params: PARAMS[params].iter().map(|s| s.to_string()).collect(),
        body,
    }
}

// ---------------------------------------------------------------------------------------------
// Reference scope resolver

#[derive(Clone, Debug)]
pub struct Decl {
    pub name: String,
    /// Span of the declaring statement (or of the parameter list for parameters).
    pub span: Range<usize>,
    /// The declaration this one shadows, if the name was visible.
    pub shadows: Option<usize>,
    pub is_param: bool,
}

pub struct Resolution {
    pub decls: Vec<Decl>,
    /// For every identifier occurrence (by start offset): the declaration it refers to.
    pub refers: HashMap<usize, Option<usize>>,
}

struct Resolver<'a> {
    printed: &'a Printed,
    scopes: Vec<HashMap<String, usize>>,
    decls: Vec<Decl>,
    refers: HashMap<usize, Option<usize>>,
}

impl<'a> Resolver<'a> {
    fn lookup(&self, name: &str) -> Option<usize> {
        self.scopes.iter().rev().find_map(|s| s.get(name).copied())
    }
    fn idents_of(&mut self, node_id: usize, stmt_span: Range<usize>) {
        let idents: Vec<_> = self.printed.idents.iter().filter(|i| i.node == node_id && stmt_span.start <= i.range.start && i.range.end <= stmt_span.end).cloned().collect();
        // Declarations take effect before the rest of the statement is resolved.
        for i in idents.iter().filter(|i| i.role == Role::Decl) {
            let shadows = self.lookup(&i.name);
            let id = self.decls.len();
            self.decls.push(Decl { name: i.name.clone(), span: stmt_span.clone(), shadows, is_param: false });
            self.scopes.last_mut().unwrap().insert(i.name.clone(), id);
            self.refers.insert(i.range.start, Some(id));
        }
        for i in idents.iter().filter(|i| i.role != Role::Decl) {
            let r = self.lookup(&i.name);
            self.refers.insert(i.range.start, r);
        }
    }
    fn atom(&mut self, id: usize) {
        let span = self.printed.span_of(id, SpanKind::Atom).expect("atom span").range.clone();
        self.idents_of(id, span);
    }
    fn cond(&mut self, id: usize) {
        let span = self.printed.span_of(id, SpanKind::Cond).expect("cond span").range.clone();
        self.idents_of(id, span);
    }
    fn body(&mut self, body: &Body, id: usize) {
        match body {
            Body::Braced(nodes) => {
                self.scopes.push(HashMap::new());
                self.nodes(&nodes.iter().collect::<Vec<_>>(), id);
                self.scopes.pop();
            }
            Body::Bare(n) => {
                self.node(n, id);
            }
        }
    }
    fn nodes(&mut self, nodes: &[&Node], mut id: usize) {
        for n in nodes {
            self.node(n, id);
            id += crate::refsem::walk::ids(n);
        }
    }
    fn node(&mut self, node: &Node, id: usize) {
        match node {
            Node::Atom(_) => self.atom(id),
            Node::If { then, els, .. } => {
                self.cond(id);
                self.body(then, id + 1);
                if let Some(els) = els {
                    let then_ids: usize = then.nodes().iter().map(|n| crate::refsem::walk::ids(n)).sum();
                    self.body(els, id + 1 + then_ids);
                }
            }
            Node::While { body, .. } => {
                self.cond(id);
                self.body(body, id + 1);
            }
            Node::For { body, .. } => {
                // { init; while (cond) { body; step } }
                self.scopes.push(HashMap::new());
                self.atom(id + 1);
                self.cond(id);
                self.scopes.push(HashMap::new());
                self.body(body, id + 3);
                self.atom(id + 2);
                self.scopes.pop();
                self.scopes.pop();
            }
            Node::Block(nodes) => {
                self.scopes.push(HashMap::new());
                self.nodes(&nodes.iter().collect::<Vec<_>>(), id + 1);
                self.scopes.pop();
            }
        }
    }
}

pub fn resolve(def: &Def, printed: &Printed) -> Resolution {
    let params = printed.spans.iter().find(|s| s.kind == SpanKind::Params).expect("params span").range.clone();
    let mut r = Resolver { printed, scopes: vec![HashMap::new()], decls: Vec::new(), refers: HashMap::new() };
    for p in &def.params {
        let id = r.decls.len();
        r.decls.push(Decl { name: p.clone(), span: params.clone(), shadows: None, is_param: true });
        r.scopes[0].insert(p.clone(), id);
    }
    // The body of a definition is a block of its own.
    r.scopes.push(HashMap::new());
    r.nodes(&def.body.iter().collect::<Vec<_>>(), 0);
    Resolution { decls: r.decls, refers: r.refers }
}

// ---------------------------------------------------------------------------------------------
// Occurrences in the IR

fn expr_occurrences(e: &Expression, out: &mut Vec<(usize, VariableName)>) {
    use Expression::*;
    match e {
        InfixOp { lhe, rhe, .. } => {
            expr_occurrences(lhe, out);
            expr_occurrences(rhe, out);
        }
        PrefixOp { rhe, .. } => expr_occurrences(rhe, out),
        SwitchOp { cond, if_true, if_false, .. } => {
            expr_occurrences(cond, out);
            expr_occurrences(if_true, out);
            expr_occurrences(if_false, out);
        }
        Variable { meta, name } => out.push((meta.start(), name.clone())),
        Access { meta, var, access } => {
            out.push((meta.start(), var.clone()));
            for a in access {
                if let AccessType::ArrayAccess(i) = a {
                    expr_occurrences(i, out);
                }
            }
        }
        Update { rhe, access, .. } => {
            expr_occurrences(rhe, out);
            for a in access {
                if let AccessType::ArrayAccess(i) = a {
                    expr_occurrences(i, out);
                }
            }
        }
        Call { args, .. } => args.iter().for_each(|a| expr_occurrences(a, out)),
        InlineArray { values, .. } => values.iter().for_each(|a| expr_occurrences(a, out)),
        Number(_, _) | Phi { .. } => {}
    }
}

/// (source offset of the identifier, IR name) for every occurrence that can be located.
fn ir_occurrences(cfg: &program_structure::cfg::Cfg, printed: &Printed) -> Vec<(usize, VariableName)> {
    let mut out = Vec::new();
    for block in cfg.iter() {
        for stmt in block.iter() {
            let span = stmt.meta().file_location();
            // Identifier occurrences of the generator inside this statement's span.
            let first = |role: Role| printed.idents.iter().find(|i| i.role == role && span.start <= i.range.start && i.range.end <= span.end.max(span.start + 1));
            match stmt {
                Statement::Declaration { names, dimensions, .. } => {
                    if let Some(i) = first(Role::Decl) {
                        out.push((i.range.start, names.first().clone()));
                    }
                    for d in dimensions {
                        expr_occurrences(d, &mut out);
                    }
                }
                Statement::Substitution { var, rhe, .. } => {
                    if let Some(i) = first(Role::Write).or_else(|| first(Role::Decl)) {
                        out.push((i.range.start, var.clone()));
                    }
                    expr_occurrences(rhe, &mut out);
                }
                Statement::IfThenElse { cond, .. } => expr_occurrences(cond, &mut out),
                Statement::Return { value, .. } => expr_occurrences(value, &mut out),
                Statement::Assert { arg, .. } => expr_occurrences(arg, &mut out),
                Statement::ConstraintEquality { lhe, rhe, .. } => {
                    expr_occurrences(lhe, &mut out);
                    expr_occurrences(rhe, &mut out);
                }
                Statement::LogCall { args, .. } => {
                    for a in args {
                        if let LogArgument::Expr(e) = a {
                            expr_occurrences(e, &mut out);
                        }
                    }
                }
            }
        }
    }
    out
}

pub fn check(def: &Def, dir: Option<&Path>, case: &Value) -> (Vec<Violation>, bool) {
    let mut out = Vec::new();
    let printed = print_def(def);
    let res = resolve(def, &printed);
    let src = &printed.text;
    let mut push = |sig: &str, what: String, expected: String, observed: String| {
        out.push(Violation { signature: sig.to_string(), what, case: case.clone(), expected, observed: format!("{observed}\n{src}") });
    };
    let ast = match pipe::parse(src) {
        Ok(Some(ast)) => ast,
        _ => {
            push("MACHINERY-not-parsed", "generated program rejected by the parser".into(), "accepted".into(), String::new());
            return (out, false);
        }
    };
    let (cfg, _) = match pipe::to_cfg(&ast, &Curve::Bn254) {
        Ok(x) => x,
        Err(pipe::LiftError::Panic { info, .. }) => {
            push(&info.signature(), "into_cfg panicked".into(), "a CFG".into(), info.message.clone());
            return (out, false);
        }
        Err(_) => return (out, false),
    };
    // (1) same (name, suffix) <=> same declaration.
    let occ = ir_occurrences(&cfg, &printed);
    let resolved: Vec<(usize, &VariableName, usize)> = occ
        .iter()
        .filter_map(|(off, name)| res.refers.get(off).copied().flatten().map(|d| (*off, name, d)))
        .collect();
    for (off, name, d) in &resolved {
        if name.name() != &res.decls[*d].name {
            push(
                "name-part-changed",
                format!("occurrence at byte {off} of `{}` is called `{name:?}` in the IR", res.decls[*d].name),
                format!("name part `{}`", res.decls[*d].name),
                format!("{name:?}"),
            );
        }
    }
    'outer: for i in 0..resolved.len() {
        for j in (i + 1)..resolved.len() {
            let (oi, ni, di) = &resolved[i];
            let (oj, nj, dj) = &resolved[j];
            let same_ir = ni.name() == nj.name() && ni.suffix() == nj.suffix();
            if same_ir != (di == dj) {
                let sig = if same_ir { "distinct-declarations-identified" } else { "one-declaration-split" };
                push(
                    sig,
                    format!(
                        "occurrences at bytes {oi} (`{ni:?}`) and {oj} (`{nj:?}`) refer to declarations #{di} and #{dj} of `{}` / `{}`",
                        res.decls[*di].name, res.decls[*dj].name
                    ),
                    "the same (name, suffix) exactly for occurrences of the same declaration".into(),
                    super::cfgcheck::dump_cfg(&cfg),
                );
                break 'outer;
            }
        }
    }
    // (2) SSA audits.
    match pipe::to_ssa(cfg) {
        Ok(ssa) => {
            for mut v in c14::static_audit(&ssa, src, case) {
                v.signature = format!("ssa/{}", v.signature);
                out.push(v);
            }
            let (vs, _) = c14::path_audit(&ssa, src, 2, case, 5_000);
            for mut v in vs {
                v.signature = format!("ssa/{}", v.signature);
                out.push(v);
            }
        }
        Err(pipe::LiftError::Panic { info, .. }) => out.push(Violation {
            signature: info.signature(),
            what: "into_ssa panicked".into(),
            case: case.clone(),
            expected: "SSA".into(),
            observed: format!("{}\n{src}", info.message),
        }),
        Err(_) => {}
    }
    // (3) shadowing warnings through the runner.
    if let Some(dir) = dir {
        // Every other case a template that instantiates M (or a function that calls it) is
        // analysed first: M is then lifted and cached before its own analysis starts, and its
        // lifting-stage warnings must still be displayed, exactly once.
        let user_first = case["index"].as_u64().unwrap_or(0) % 2 == 1;
        let args = vec!["1"; def.params.len()].join(", ");
        let user = if def.kind == DefKind::Function {
            format!("function W() {{\n    return M({args});\n}}\n")
        } else {
            format!("template W() {{\n    component m = M({args});\n}}\n")
        };
        let files = runner::write_project(dir, &[("p.circom", &format!("{src}{SUB}{user}"))]);
        if let Ok(mut loaded) = runner::load(&files, &[], Curve::Bn254) {
            let lib = loaded.runner.file_library().clone();
            let mut collector = runner::Collector::default();
            let r = crate::infra::catch(|| {
                if def.kind == DefKind::Function {
                    if user_first {
                        loaded.runner.verif_analyze_function("W", &mut collector);
                    }
                    loaded.runner.verif_analyze_function("M", &mut collector)
                } else {
                    if user_first {
                        loaded.runner.verif_analyze_template("W", &mut collector);
                    }
                    loaded.runner.verif_analyze_template("M", &mut collector)
                }
            });
            if r.is_ok() {
                let got: BTreeSet<(usize, usize, usize, usize)> = collector
                    .reports
                    .iter()
                    .map(|r| finding_of(r, &lib))
                    .filter(|f| f.id == "CS0001")
                    .map(|f| {
                        let p = f.primary.first().map(|l| (l.start, l.end)).unwrap_or((0, 0));
                        let s = f.secondary.first().map(|l| (l.start, l.end)).unwrap_or((0, 0));
                        (p.0, p.1, s.0, s.1)
                    })
                    .collect();
                let expected: BTreeSet<(usize, usize, usize, usize)> = res
                    .decls
                    .iter()
                    .filter_map(|d| d.shadows.map(|s| (d.span.start, d.span.end, res.decls[s].span.start, res.decls[s].span.end)))
                    .collect();
                if got != expected {
                    let missing: Vec<_> = expected.difference(&got).collect();
                    let extra: Vec<_> = got.difference(&expected).collect();
                    let sig = if !missing.is_empty() && got.iter().any(|g| missing.iter().any(|m| m.0 == g.0 && m.1 == g.1)) {
                        "shadowing/wrong-secondary"
                    } else if !missing.is_empty() {
                        "shadowing/not-reported"
                    } else {
                        "shadowing/spurious"
                    };
                    out.push(Violation {
                        signature: sig.into(),
                        what: "the displayed shadowing warnings are not exactly the declarations that redeclare a visible name (primary = declaration, secondary = shadowed declaration)".into(),
                        case: case.clone(),
                        expected: format!("{expected:?}"),
                        observed: format!("missing {missing:?} extra {extra:?}\n{src}"),
                    });
                }
            }
        }
    }
    (out, true)
}

fn is_decl(n: &Node) -> bool {
    matches!(n, Node::Atom(a) if a.idents.iter().any(|i| i.role == Role::Decl))
}

pub fn has_bare_declaration(nodes: &[Node]) -> bool {
    fn body(b: &Body) -> bool {
        match b {
            Body::Bare(n) => is_decl(n) || has_bare_declaration(std::slice::from_ref(n.as_ref())),
            Body::Braced(ns) => has_bare_declaration(ns),
        }
    }
    nodes.iter().any(|n| match n {
        Node::Atom(_) => false,
        Node::If { then, els, .. } => body(then) || els.as_ref().map(body).unwrap_or(false),
        Node::While { body: b, .. } | Node::For { body: b, .. } => body(b),
        Node::Block(ns) => has_bare_declaration(ns),
    })
}

fn opts(max_stmts: usize, bare: bool) -> SkelOpts {
    SkelOpts { max_stmts, max_depth: 3, allow_for: true, allow_bare: bare, allow_block: true, allow_empty_body: false }
}

fn digits(mut i: usize, radix: usize, n: usize) -> Vec<usize> {
    (0..n)
        .map(|_| {
            let d = i % radix;
            i /= radix;
            d
        })
        .collect()
}

pub fn run(run: &Run) {
    let max = run.tier.pick(3, 4);
    let skels = enumerate(opts(max, true));
    run.set_rule(&format!(
        "every skeleton <= {max} statements (blocks, for, bare bodies) x every assignment of 8 atoms {{var x, \
         var x_0, var y, x = k, x_0 = k, r = r + x, r = r + x_0, x = x_0 + y}} and of the 8 position atoms {{var x, \
         a[x] = k, r = r + a[x], c.in[x] <== k | r = g(x, r), r = (x > 0) ? x : r, log(x), var b[x], a[a[x]] = x}} \
         (an identifier at every syntactic position: index on either side, after a component access, call \
         argument, ternary, log argument, dimension) x loop variable in {{x, x_0}} \
         x parameter lists {{(n,x), (n,x_0), (n,x,y)}}, as function and template; repeated parameter \
         names; non-trivial = program with at least one shadowing declaration"
    ));
    run.set_extra("skeletons", json!(skels.len()));
    let root = work_dir("c10");
    par_each(&skels, |i, skel| {
        let na: usize = skel.iter().map(|s| s.atoms()).sum();
        let nf: usize = skel.iter().map(|s| s.fors()).sum();
        let dir = root.join(format!("{:?}", std::thread::current().id()).replace(|c: char| !c.is_ascii_alphanumeric(), ""));
        for ac in 0..ATOMS.pow(na as u32) {
            let atoms = digits(ac, ATOMS, na);
            for fc in 0..(1usize << nf) {
                let loops = digits(fc, 2, nf);
                for params in 0..PARAMS.len() {
                    // The runner (3) is exercised on the template variant; the in-process
                    // checks (1), (2) on both.
                    for (template, alphabet) in [(false, 0usize), (true, 0), (false, 1), (true, 1)] {
                        let case = json!({"kind": "scope", "max_stmts": max, "index": i, "atoms": atoms, "loops": loops, "params": params, "template": template, "alphabet": alphabet});
                        run.watch(&case);
                        let def = build_with(skel, &atoms, &loops, params, template, alphabet);
                        if has_bare_declaration(&def.body) {
                            // The grammar does not admit a declaration as an unbraced body.
                            continue;
                        }
                        let (vs, lifted) = check(&def, if template { Some(&dir) } else { None }, &case);
                        run.eval(1);
                        if lifted {
                            let printed = print_def(&def);
                            let res = resolve(&def, &printed);
                            if res.decls.iter().any(|d| d.shadows.is_some()) {
                                run.nontrivial(1);
                            }
                            if (i + ac + fc) % 307 == 0 {
                                run.outcome(&format!("shadowing={}", res.decls.iter().filter(|d| d.shadows.is_some()).count().min(4)));
                                if run.want_sample() && res.decls.iter().filter(|d| d.shadows.is_some()).count() >= 2 {
                                    run.sample(json!({"program": printed.text}));
                                }
                            }
                        } else {
                            run.outcome("not-lifted");
                        }
                        run.violations(vs);
                    }
                }
            }
        }
    });
    // Repeated parameter names are reported (error) through the runner.
    for params in [vec!["x", "x"], vec!["n", "x", "n"], vec!["x_0", "y", "x_0"]] {
        let text = format!("pragma circom 2.1.0;\ntemplate M({}) {{\n    signal input in;\n    signal output out;\n    out <== in;\n}}\n", params.join(", "));
        let dir = root.join("params");
        let files = runner::write_project(&dir, &[("p.circom", &text)]);
        run.eval(1);
        run.nontrivial(1);
        if let Ok(mut loaded) = runner::load(&files, &[], Curve::Bn254) {
            let lib = loaded.runner.file_library().clone();
            let mut collector = runner::Collector::default();
            let _ = crate::infra::catch(|| loaded.runner.verif_analyze_template("M", &mut collector));
            let reported = collector.reports.iter().map(|r| finding_of(r, &lib)).any(|f| f.message.contains("declared multiple times"));
            if !reported {
                run.violation(Violation {
                    signature: "repeated-parameter-not-reported".into(),
                    what: format!("parameter list ({}) repeats a name but nothing is reported", params.join(", ")),
                    case: json!({"kind": "params", "params": params}),
                    expected: "a report about the repeated parameter".into(),
                    observed: text,
                });
            }
        }
    }
    let _ = std::fs::remove_dir_all(&root);
}

pub fn replay(case: &Value) -> Vec<Violation> {
    let root = work_dir("c10-replay");
    let get = |k: &str| -> Vec<usize> {
        case[k].as_array().map(|a| a.iter().map(|v| v.as_u64().unwrap_or(0) as usize).collect()).unwrap_or_default()
    };
    let out = match case["kind"].as_str() {
        Some("scope") => {
            let max = case["max_stmts"].as_u64().unwrap_or(3) as usize;
            let skels = enumerate(opts(max, true));
            match skels.get(case["index"].as_u64().unwrap_or(0) as usize) {
                Some(skel) => {
                    let template = case["template"].as_bool().unwrap_or(true);
                    let def = build_with(skel, &get("atoms"), &get("loops"), case["params"].as_u64().unwrap_or(0) as usize, template, case["alphabet"].as_u64().unwrap_or(0) as usize);
                    check(&def, if template { Some(&root) } else { None }, case).0
                }
                None => Vec::new(),
            }
        }
        _ => Vec::new(),
    };
    let _ = std::fs::remove_dir_all(&root);
    out
}

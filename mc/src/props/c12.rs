//! C12 — the control-flow graph of every definition is well formed: every skeleton up to a
//! statement bound, as function and as template, checked after `into_cfg` and again after
//! `into_ssa` through public accessors.
use super::cfgcheck::{check_wellformed, edges_of, marker_def, marker_def_for};
use crate::infra::{par_each, Run, Violation};
use crate::space::prog::print_def;
use crate::space::skel::{enumerate, Sk, SkelOpts};
use crate::sut::pipe::{self, LiftError};
use program_structure::constants::Curve;
use serde_json::{json, Value};

/// Sweep "full": every body form (bare, empty, nested blocks). Sweep "deep": braced non-empty
/// bodies only, which allows two more statements.
pub fn opts(sweep: &str, max_stmts: usize) -> SkelOpts {
    let full = sweep == "full";
    SkelOpts {
        max_stmts,
        max_depth: 3,
        allow_for: true,
        allow_bare: full,
        allow_block: full,
        allow_empty_body: full,
    }
}

/// A declaration atom without the `Decl` identifier role (signal declarations) as a bare body.
fn has_bare_plain_declaration(nodes: &[crate::space::prog::Node]) -> bool {
    use crate::space::prog::{Body, Node};
    fn is_decl(n: &Node) -> bool {
        matches!(n, Node::Atom(a) if a.text.starts_with("signal ") || a.text.starts_with("var "))
    }
    fn body(b: &Body) -> bool {
        match b {
            Body::Bare(n) => is_decl(n) || has_bare_plain_declaration(std::slice::from_ref(n.as_ref())),
            Body::Braced(ns) => has_bare_plain_declaration(ns),
        }
    }
    nodes.iter().any(|n| match n {
        Node::Atom(_) => false,
        Node::If { then, els, .. } => body(then) || els.as_ref().map(body).unwrap_or(false),
        Node::While { body: b, .. } | Node::For { body: b, .. } => body(b),
        Node::Block(ns) => has_bare_plain_declaration(ns),
    })
}

pub fn check_program(skel: &[Sk], is_function: bool, prologue: bool, for_form: usize, case: &Value) -> (Vec<Violation>, bool) {
    check_program_atoms(skel, is_function, prologue, for_form, Vec::new(), case)
}

pub fn check_program_atoms(skel: &[Sk], is_function: bool, prologue: bool, for_form: usize, atom_choice: Vec<usize>, case: &Value) -> (Vec<Violation>, bool) {
    let fors: usize = skel.iter().map(|s| s.fors()).sum();
    let def = marker_def_for(skel, is_function, atom_choice, prologue, vec![for_form; fors]);
    if super::c10::has_bare_declaration(&def.body) || has_bare_plain_declaration(&def.body) {
        // not grammatical: a declaration as an unbraced body
        return (Vec::new(), false);
    }
    let printed = print_def(&def);
    let mut out = Vec::new();
    let machinery = |what: &str, detail: String| Violation {
        signature: format!("MACHINERY-{what}"),
        what: format!("generator and parser disagree: {what}"),
        case: case.clone(),
        expected: "generated program is accepted and lifts".into(),
        observed: detail,
    };
    let ast = match pipe::parse(&printed.text) {
        Ok(Some(ast)) => ast,
        Ok(None) => {
            out.push(machinery("not-parsed", printed.text.clone()));
            return (out, false);
        }
        Err(p) => {
            out.push(machinery("parser-panic", format!("{}: {}", p.signature(), printed.text)));
            return (out, false);
        }
    };
    let curve = Curve::Bn254;
    let (cfg, _) = match pipe::to_cfg(&ast, &curve) {
        Ok(x) => x,
        Err(LiftError::Panic { info, .. }) => {
            out.push(Violation {
                signature: info.signature(),
                what: "into_cfg panicked".into(),
                case: case.clone(),
                expected: "a CFG".into(),
                observed: format!("{}:{} {}\n{}", info.file, info.line, info.message, printed.text),
            });
            return (out, false);
        }
        Err(LiftError::Rejected { message, .. }) => {
            out.push(machinery("rejected", format!("{message}\n{}", printed.text)));
            return (out, false);
        }
        Err(LiftError::NotParsed) => unreachable!(),
    };
    out.extend(check_wellformed(&cfg, Some(&printed), "cfg", case));
    let before = edges_of(&cfg);
    match pipe::to_ssa(cfg) {
        Ok(ssa) => {
            out.extend(check_wellformed(&ssa, Some(&printed), "ssa", case));
            let after = edges_of(&ssa);
            if before != after {
                out.push(Violation {
                    signature: "ssa-changed-edges".into(),
                    what: "SSA conversion changed the edges of the graph".into(),
                    case: case.clone(),
                    expected: format!("{before:?}"),
                    observed: format!("{after:?}"),
                });
            }
        }
        Err(LiftError::Panic { info, .. }) => out.push(Violation {
            signature: info.signature(),
            what: "into_ssa panicked".into(),
            case: case.clone(),
            expected: "an SSA CFG".into(),
            observed: format!("{}:{} {}\n{}", info.file, info.line, info.message, printed.text),
        }),
        Err(LiftError::Rejected { message, .. }) => {
            out.push(machinery("ssa-rejected", format!("{message}\n{}", printed.text)))
        }
        Err(LiftError::NotParsed) => unreachable!(),
    }
    (out, true)
}

/// The same invariants on the CFG the real runner builds from a file (route B: `TemplateData` /
/// `FunctionData`, with and without a main component).
pub fn check_program_via_runner(skel: &[Sk], is_function: bool, with_main: bool, dir: &std::path::Path, case: &Value) -> Vec<Violation> {
    let fors: usize = skel.iter().map(|s| s.fors()).sum();
    let def = marker_def_for(skel, is_function, Vec::new(), true, vec![0; fors]);
    let printed = print_def(&def);
    match pipe::lift_via_runner(&printed.text, dir, &def.name, is_function, with_main) {
        Ok(cfg) => check_wellformed(&cfg, Some(&printed), "runner", case),
        Err(LiftError::Panic { info, .. }) => vec![Violation {
            signature: info.signature(),
            what: "lifting through the runner panicked".into(),
            case: case.clone(),
            expected: "a CFG".into(),
            observed: format!("{}\n{}", info.message, printed.text),
        }],
        Err(_) => vec![Violation {
            signature: "runner-rejects-program".into(),
            what: "a program that lifts from its definition does not lift through the runner".into(),
            case: case.clone(),
            expected: "a CFG".into(),
            observed: printed.text.clone(),
        }],
    }
}

pub fn run(run: &Run) {
    let sweeps = [("full", run.tier.pick(4, 5)), ("deep", run.tier.pick(7, 8))];
    run.set_rule(&format!(
        "every statement-list skeleton over atom|if|if-else|while|for|block, nesting <= 3, atoms = \
         unique markers, each as function and as template, with a `var x = 0;` prologue and without (x a parameter, so a loop or branch can be the very first statement); sweep `full` (braced, empty and bare \
         bodies, nested blocks) <= {} statements, sweep `deep` (braced non-empty bodies) <= {} \
         statements; plus every skeleton <= 3 statements with every atom drawn from 6 kinds (assignments, return / assert, two-name declaration, signal / var declaration); non-trivial = skeleton has at least one branch or loop and lifts",
        sweeps[0].1, sweeps[1].1
    ));
    for (name, max) in sweeps {
        let skels = enumerate(opts(name, max));
        run.set_extra(&format!("skeletons_{name}"), json!(skels.len()));
        run.set_extra(&format!("max_statements_{name}"), json!(max));
        par_each(&skels, |i, skel| {
            let fors: usize = skel.iter().map(|s| s.fors()).sum();
            for (is_function, prologue, for_form) in [
                (true, true, 0),
                (false, true, 0),
                (true, false, 0),
                (false, false, 0),
                (true, true, 1),
                (false, false, 1),
            ] {
                if for_form == 1 && fors == 0 {
                    continue;
                }
                let case = json!({"kind": "skeleton", "sweep": name, "max_stmts": max, "index": i, "function": is_function, "prologue": prologue, "for_form": for_form});
                run.watch(&case);
                let (violations, lifted) = check_program(skel, is_function, prologue, for_form, &case);
                run.eval(1);
                let conds: usize = skel.iter().map(|s| s.conds()).sum();
                if lifted && conds > 0 {
                    run.nontrivial(1);
                }
                if i % 997 == 0 {
                    let loops: usize = skel.iter().map(|s| s.loops()).sum();
                    run.outcome(&format!("conds={conds},loops={loops}"));
                    if run.want_sample() && conds >= 2 {
                        let def = marker_def(skel, is_function, Vec::new(), prologue);
                        run.sample(json!({"program": print_def(&def).text}));
                    }
                }
                run.violations(violations);
            }
        });
    }
    // Atom sweep: every skeleton <= 3 statements with every atom drawn from {x = k, x += k, x--,
    // return x | assert(x), var a = x, b = a + 1, signal t | var u}: returns in the middle of
    // branches and loops, declarations anywhere.
    {
        use super::cfgcheck::ROUTE_A_KINDS;
        let skels = enumerate(opts("full", 3));
        par_each(&skels, |i, skel| {
            let atoms: usize = skel.iter().map(|s| s.atoms()).sum();
            for combo in 0..ROUTE_A_KINDS.len().pow(atoms as u32) {
                let choice: Vec<usize> = (0..atoms).map(|k| ROUTE_A_KINDS[combo / ROUTE_A_KINDS.len().pow(k as u32) % ROUTE_A_KINDS.len()]).collect();
                for is_function in [true, false] {
                    let case = json!({"kind": "skeleton-atoms", "index": i, "function": is_function, "atoms": choice});
                    run.watch(&case);
                    let (violations, _) = check_program_atoms(skel, is_function, true, 0, choice.clone(), &case);
                    run.eval(1);
                    run.violations(violations);
                }
            }
        });
    }
    // Route B on every skeleton of <= 3 statements.
    let root = crate::infra::work_dir("c12");
    let small = enumerate(opts("full", 3));
    run.set_extra("skeletons_via_runner", json!(small.len()));
    par_each(&small, |i, skel| {
        let dir = root.join(format!("{:?}", std::thread::current().id()).replace(|c: char| !c.is_ascii_alphanumeric(), ""));
        for (is_function, with_main) in [(true, false), (false, false), (false, true)] {
            let case = json!({"kind": "skeleton-runner", "index": i, "function": is_function, "main": with_main});
            run.watch(&case);
            run.eval(1);
            run.violations(check_program_via_runner(skel, is_function, with_main, &dir, &case));
        }
    });
    let _ = std::fs::remove_dir_all(&root);
}

pub fn replay(case: &Value) -> Vec<Violation> {
    if case["kind"].as_str() == Some("skeleton-runner") {
        let root = crate::infra::work_dir("c12-replay");
        let skels = enumerate(opts("full", 3));
        let out = match skels.get(case["index"].as_u64().unwrap_or(0) as usize) {
            Some(skel) => check_program_via_runner(skel, case["function"].as_bool().unwrap_or(true), case["main"].as_bool().unwrap_or(false), &root, case),
            None => Vec::new(),
        };
        let _ = std::fs::remove_dir_all(&root);
        return out;
    }
    if case["kind"].as_str() == Some("skeleton-atoms") {
        let skels = enumerate(opts("full", 3));
        let choice: Vec<usize> = case["atoms"].as_array().map(|a| a.iter().map(|v| v.as_u64().unwrap_or(0) as usize).collect()).unwrap_or_default();
        return match skels.get(case["index"].as_u64().unwrap_or(0) as usize) {
            Some(skel) => check_program_atoms(skel, case["function"].as_bool().unwrap_or(true), true, 0, choice, case).0,
            None => Vec::new(),
        };
    }
    let max = case["max_stmts"].as_u64().unwrap_or(6) as usize;
    let index = case["index"].as_u64().unwrap_or(0) as usize;
    let is_function = case["function"].as_bool().unwrap_or(true);
    let sweep = case["sweep"].as_str().unwrap_or("full");
    let skels = enumerate(opts(sweep, max));
    match skels.get(index) {
        Some(skel) => check_program(skel, is_function, case["prologue"].as_bool().unwrap_or(true), case["for_form"].as_u64().unwrap_or(0) as usize, case).0,
        None => Vec::new(),
    }
}

//! C16 — every public operation of `circom_algebra::modular_arithmetic` against the reference
//! field semantics: all operand pairs of small prime fields, and all pairs of a boundary alphabet
//! for the three real primes. Shifts whose effective count is astronomically large run in an
//! isolated worker with a deadline and a memory limit.
use crate::infra::{catch, par_each, Run, Tier, Violation};
use crate::refsem::field::{
    real_primes, to_bigint, BinOp, Expect, Field, UnOp, ALL_BINOPS, ALL_UNOPS,
};
use crate::sut::worker::{spawn_worker, WorkerOutcome};
use circom_algebra::modular_arithmetic as ma;
use num_bigint_dig::{BigInt, BigUint};
use num_traits::{One, Zero};
use serde_json::{json, Value};
use std::time::Duration;

#[derive(Debug, Clone, PartialEq, Eq)]
pub enum Got {
    Value(BigInt),
    Err,
}

pub fn real_binop(op: BinOp, a: &BigInt, b: &BigInt, p: &BigInt) -> Got {
    let r = |r: Result<BigInt, ma::ArithmeticError>| match r {
        Ok(v) => Got::Value(v),
        Err(_) => Got::Err,
    };
    match op {
        BinOp::Mul => Got::Value(ma::mul(a, b, p)),
        BinOp::Div => r(ma::div(a, b, p)),
        BinOp::Add => Got::Value(ma::add(a, b, p)),
        BinOp::Sub => Got::Value(ma::sub(a, b, p)),
        BinOp::Pow => Got::Value(ma::pow(a, b, p)),
        BinOp::IntDiv => r(ma::idiv(a, b, p)),
        BinOp::Mod => r(ma::mod_op(a, b, p)),
        BinOp::ShiftL => r(ma::shift_l(a, b, p)),
        BinOp::ShiftR => r(ma::shift_r(a, b, p)),
        BinOp::LesserEq => Got::Value(ma::lesser_eq(a, b, p)),
        BinOp::GreaterEq => Got::Value(ma::greater_eq(a, b, p)),
        BinOp::Lesser => Got::Value(ma::lesser(a, b, p)),
        BinOp::Greater => Got::Value(ma::greater(a, b, p)),
        BinOp::Eq => Got::Value(ma::eq(a, b, p)),
        BinOp::NotEq => Got::Value(ma::not_eq(a, b, p)),
        BinOp::BoolOr => Got::Value(ma::bool_or(a, b, p)),
        BinOp::BoolAnd => Got::Value(ma::bool_and(a, b, p)),
        BinOp::BitOr => Got::Value(ma::bit_or(a, b, p)),
        BinOp::BitAnd => Got::Value(ma::bit_and(a, b, p)),
        BinOp::BitXor => Got::Value(ma::bit_xor(a, b, p)),
    }
}

pub fn real_unop(op: UnOp, a: &BigInt, p: &BigInt) -> Got {
    match op {
        UnOp::Neg => Got::Value(ma::prefix_sub(a, p)),
        UnOp::BoolNot => Got::Value(ma::not(a, p)),
        UnOp::Complement => Got::Value(ma::complement_256(a, p)),
    }
}

fn operand_class(f: &Field, x: &BigUint) -> &'static str {
    if x.is_zero() {
        "0"
    } else if x <= &f.half {
        if x >= &BigUint::from(f.bits) {
            "pos>=bits"
        } else {
            "pos<bits"
        }
    } else {
        let back = &f.p - x;
        if back >= BigUint::from(f.bits) {
            "neg,p-k>=bits"
        } else {
            "neg,p-k<bits"
        }
    }
}

fn compare(expect: &Expect, got: &Got) -> Option<(String, String)> {
    match (expect, got) {
        (Expect::Value(e), Got::Value(g)) => {
            if &to_bigint(e) == g {
                None
            } else {
                Some((format!("{e}"), format!("{g}")))
            }
        }
        (Expect::Value(e), Got::Err) => Some((format!("{e}"), "Err".into())),
        (Expect::Error, Got::Err) => None,
        (Expect::Error, Got::Value(g)) => Some(("Err".into(), format!("{g}"))),
        (Expect::ValueOrError(_), Got::Err) => None,
        (Expect::ValueOrError(e), Got::Value(g)) => {
            if &to_bigint(e) == g {
                None
            } else {
                Some((format!("{e} or Err"), format!("{g}")))
            }
        }
    }
}

/// True if evaluating this shift naively would materialise 2^k for an astronomically large k.
fn dangerous_shift(f: &Field, op: BinOp, b: &BigUint) -> bool {
    if !matches!(op, BinOp::ShiftL | BinOp::ShiftR) {
        return false;
    }
    let eff = if b <= &f.half { b.clone() } else { &f.p - b };
    eff > BigUint::from(1u32 << 16)
}

fn case_json(kind: &str, op: &str, a: &BigUint, b: Option<&BigUint>, p: &BigUint) -> Value {
    json!({"kind": kind, "op": op, "a": a.to_string(), "b": b.map(|b| b.to_string()), "p": p.to_string()})
}

fn check_binop(f: &Field, op: BinOp, a: &BigUint, b: &BigUint, run: Option<&Run>) -> Vec<Violation> {
    let mut out = Vec::new();
    let expect = f.binop(op, a, b);
    let case = case_json("binop", op.name(), a, Some(b), &f.p);
    let class = match op {
        BinOp::ShiftL | BinOp::ShiftR => format!("count:{}", operand_class(f, b)),
        BinOp::Div | BinOp::IntDiv | BinOp::Mod => {
            if b.is_zero() { "rhs=0".to_string() } else { "rhs!=0".to_string() }
        }
        _ => "any".to_string(),
    };
    if dangerous_shift(f, op, b) {
        // Isolated execution under a 2 s deadline and a 1 GiB address-space limit.
        let outcome = spawn_worker("c16", &case, Duration::from_secs(2), 1 << 30);
        if let Some(run) = run {
            run.add_extra_count("isolated_worker_runs", 1);
        }
        match outcome {
            WorkerOutcome::Done(v) => {
                if let Some(pan) = v.get("panic") {
                    out.push(Violation {
                        signature: format!("panic/{}/{}", op.name(), class),
                        what: format!("{} panics", op.name()),
                        case,
                        expected: format!("{expect:?}"),
                        observed: format!("panic: {pan}"),
                    });
                } else {
                    let got = match v.get("value").and_then(|s| s.as_str()) {
                        Some(s) => Got::Value(BigInt::parse_bytes(s.as_bytes(), 10).unwrap()),
                        None => Got::Err,
                    };
                    if let Some((e, g)) = compare(&expect, &got) {
                        out.push(Violation {
                            signature: format!("value/{}/{}", op.name(), class),
                            what: format!("{} returns a wrong value", op.name()),
                            case,
                            expected: e,
                            observed: g,
                        });
                    }
                }
            }
            WorkerOutcome::Timeout => out.push(Violation {
                signature: format!("hang/{}/{}", op.name(), class),
                what: format!("{} does not return within 2 s for an over-large shift count", op.name()),
                case,
                expected: format!("{expect:?} in bounded time"),
                observed: "no result after 2 s (worker killed)".into(),
            }),
            WorkerOutcome::Crashed { status, stderr } => out.push(Violation {
                signature: format!("hang/{}/{}", op.name(), class),
                what: format!(
                    "{} attempts an astronomically large computation (worker died under a 1 GiB limit)",
                    op.name()
                ),
                case,
                expected: format!("{expect:?} in bounded time"),
                observed: format!("worker {status}: {stderr}"),
            }),
        }
        return out;
    }
    let (ai, bi, pi) = (to_bigint(a), to_bigint(b), to_bigint(&f.p));
    match catch(|| real_binop(op, &ai, &bi, &pi)) {
        Err(pan) => out.push(Violation {
            signature: format!("panic/{}/{}", op.name(), class),
            what: format!("{} panics", op.name()),
            case,
            expected: format!("{expect:?}"),
            observed: format!("panic at {}:{}: {}", pan.file, pan.line, pan.message),
        }),
        Ok(got) => {
            if let Some((e, g)) = compare(&expect, &got) {
                out.push(Violation {
                    signature: format!("value/{}/{}", op.name(), class),
                    what: format!("{}({a}, {b}) mod {} is wrong", op.name(), f.p),
                    case,
                    expected: e,
                    observed: g,
                });
            }
        }
    }
    out
}

fn check_unop(f: &Field, op: UnOp, a: &BigUint) -> Vec<Violation> {
    let mut out = Vec::new();
    let expect = f.unop(op, a);
    let case = case_json("unop", op.name(), a, None, &f.p);
    let class = if a.is_zero() { "0" } else { "nonzero" };
    let (ai, pi) = (to_bigint(a), to_bigint(&f.p));
    match catch(|| real_unop(op, &ai, &pi)) {
        Err(pan) => out.push(Violation {
            signature: format!("panic/{}/{}", op.name(), class),
            what: format!("{} panics", op.name()),
            case,
            expected: format!("{expect:?}"),
            observed: format!("panic at {}:{}: {}", pan.file, pan.line, pan.message),
        }),
        Ok(got) => {
            if let Some((e, g)) = compare(&expect, &got) {
                out.push(Violation {
                    signature: format!("value/{}/{}", op.name(), class),
                    what: format!("{}({a}) mod {} is wrong", op.name(), f.p),
                    case,
                    expected: e,
                    observed: g,
                });
            }
        }
    }
    // as_bool rides along with the unary sweep.
    let case = case_json("as_bool", "as_bool", a, None, &f.p);
    match catch(|| ma::as_bool(&ai, &pi)) {
        Err(pan) => out.push(Violation {
            signature: "panic/as_bool".into(),
            what: "as_bool panics".into(),
            case,
            expected: format!("{}", !a.is_zero()),
            observed: format!("panic at {}:{}: {}", pan.file, pan.line, pan.message),
        }),
        Ok(got) => {
            if got == a.is_zero() {
                out.push(Violation {
                    signature: "value/as_bool".into(),
                    what: format!("as_bool({a}) mod {} is wrong", f.p),
                    case,
                    expected: format!("{}", !a.is_zero()),
                    observed: format!("{got}"),
                });
            }
        }
    }
    out
}

fn is_prime(n: u64) -> bool {
    n >= 2 && (2..).take_while(|d| d * d <= n).all(|d| n % d != 0)
}

fn boundary_alphabet(f: &Field) -> Vec<BigUint> {
    let p = &f.p;
    let one = BigUint::one();
    let two = BigUint::from(2u32);
    let bits = f.bits;
    let mut v: Vec<BigUint> = Vec::new();
    // (mid-sized values: exponents and shift counts that fit a machine word but are far too
    // large for anything but modular exponentiation)
    for s in [0u64, 1, 2, 3, 63, 64, 255, 256, 65536, 1 << 24, 1 << 30, u32::MAX as u64, 1 << 32, 100_000_000_000, 1 << 63, u64::MAX] {
        v.push(BigUint::from(s));
    }
    v.push(BigUint::from(u64::MAX) + &one);
    for d in [bits.saturating_sub(1), bits, bits + 1, 2 * bits] {
        v.push(BigUint::from(d));
    }
    for k in [bits - 2, bits - 1, 253, 254] {
        let pw = &one << k;
        v.push(&pw - &one);
        v.push(pw.clone());
        v.push(&pw + &one);
    }
    let h = &f.half;
    v.push(h - &one);
    v.push(h.clone());
    v.push(h + &one);
    v.push(h + &two);
    for back in [1u64, 2, 3, 63, 64, 100_000_000_000] {
        v.push(p - BigUint::from(back));
    }
    for back in [bits - 1, bits, bits + 1] {
        v.push(p - BigUint::from(back));
    }
    v.retain(|x| x < p);
    v.sort();
    v.dedup();
    v
}

pub fn run(run: &Run) {
    run.set_rule(
        "op x (a,b): all pairs of canonical field elements for every small prime; all pairs of a \
         boundary alphabet for the three real primes; the prime handed to the analysis for every sequence of <= 3 curves on one thread; non-trivial = reference result is not \
         determined by a zero/one operand (a>1 and b>1) or is an error case; oracle = independent \
         reference (BigUint primitives only)",
    );
    let small_bound = run.tier.pick(31u64, 199u64);
    let mut small: Vec<u64> = (3..=small_bound).filter(|n| is_prime(*n)).collect();
    match run.tier {
        Tier::Quick => small.push(257),
        Tier::Thorough => small.extend([127, 251, 257]),
    }
    run.set_extra("small_primes", json!(small));

    // Jobs: (field, left operand) rows.
    struct Job {
        field: Field,
        a: BigUint,
        rights: std::sync::Arc<Vec<BigUint>>,
        real: bool,
    }
    let mut jobs = Vec::new();
    for p in &small {
        let field = Field::from_u64(*p);
        let all: std::sync::Arc<Vec<BigUint>> =
            std::sync::Arc::new((0..*p).map(BigUint::from).collect());
        for a in all.iter() {
            jobs.push(Job { field: field.clone(), a: a.clone(), rights: all.clone(), real: false });
        }
    }
    let mut alphabet_sizes = Vec::new();
    for (name, p) in real_primes() {
        let field = Field::new(&p);
        let alphabet = std::sync::Arc::new(boundary_alphabet(&field));
        alphabet_sizes.push(json!({"curve": name, "values": alphabet.len()}));
        for a in alphabet.iter() {
            jobs.push(Job { field: field.clone(), a: a.clone(), rights: alphabet.clone(), real: true });
        }
    }
    run.set_extra("boundary_alphabet", json!(alphabet_sizes));

    par_each(&jobs, |_, job| {
        let f = &job.field;
        run.watch(&json!({"kind": "row", "a": job.a.to_string(), "p": f.p.to_string()}));
        for op in ALL_UNOPS {
            run.eval(2);
            if job.a > BigUint::one() {
                run.nontrivial(1);
            }
            run.violations(check_unop(f, op, &job.a));
        }
        // For the real primes, dangerous shifts are explored for a 4-value subset of left
        // operands only (each costs a process; the count operand is what matters).
        let dangerous_left = job.a.is_zero()
            || job.a == BigUint::one()
            || job.a == &f.p - BigUint::one()
            || job.a == (BigUint::one() << 64usize);
        for b in job.rights.iter() {
            for op in ALL_BINOPS {
                if job.real && dangerous_shift(f, op, b) && !dangerous_left {
                    continue;
                }
                run.eval(1);
                let expect_is_err = matches!(f.binop(op, &job.a, b), Expect::Error | Expect::ValueOrError(_));
                if (job.a > BigUint::one() && b > &BigUint::one()) || expect_is_err {
                    run.nontrivial(1);
                }
                let vs = check_binop(f, op, &job.a, b, Some(run));
                if vs.is_empty() {
                    if job.a == BigUint::from(2u32) {
                        run.outcome(&format!("{}:{}", op.name(), operand_class(f, b)));
                    }
                } else {
                    run.violations(vs);
                }
            }
        }
    });
    // The prime the analysis computes with is the one of the requested curve, whatever curves
    // were used before on the same thread: every sequence of <= 3 curves, each on a fresh thread.
    {
        use program_structure::constants::{Curve, UsefulConstants};
        let curves = [("BN254", Curve::Bn254), ("BLS12_381", Curve::Bls12_381), ("GOLDILOCKS", Curve::Goldilocks)];
        let primes = crate::refsem::field::real_primes();
        let mut sequences = 0u64;
        for len in 1..=3usize {
            for code in 0..3usize.pow(len as u32) {
                let seq: Vec<usize> = (0..len).map(|i| code / 3usize.pow(i as u32) % 3).collect();
                sequences += 1;
                let thread_curves = curves.clone();
                let seq2 = seq.clone();
                let got: Vec<String> = std::thread::spawn(move || seq2.iter().map(|i| UsefulConstants::new(&thread_curves[*i].1).prime().to_string()).collect()).join().unwrap_or_default();
                for (k, i) in seq.iter().enumerate() {
                    let expected = primes.iter().find(|(n, _)| *n == curves[*i].0).map(|(_, p)| p.to_string()).unwrap_or_default();
                    if got.get(k) != Some(&expected) {
                        run.violation(Violation {
                            signature: format!("curve-prime/{}", curves[*i].0),
                            what: format!("the prime of {} is wrong when the curves {:?} are used one after the other on one thread", curves[*i].0, seq.iter().map(|j| curves[*j].0).collect::<Vec<_>>()),
                            case: json!({"kind": "curve-sequence", "sequence": seq}),
                            expected,
                            observed: format!("{:?}", got.get(k)),
                        });
                        break;
                    }
                }
            }
        }
        run.eval(sequences);
        run.set_extra("curve_sequences", json!(sequences));
    }
    run.sample(json!({"op": "lesser", "a": "2", "b": "p-1", "p": "BN254", "expected": "0 (p-1 is -1)"}));
    let f = Field::from_u64(11);
    run.sample(json!({"op": "shift_l", "a": "3", "b": "9", "p": "11",
        "expected": format!("{:?}", f.binop(BinOp::ShiftL, &BigUint::from(3u32), &BigUint::from(9u32)))}));
    run.sample(json!({"op": "mod_op", "a": "5", "b": "0", "p": "257", "expected": "Err"}));
    run.assume("operands are canonical field elements in [0,p); non-canonical inputs are outside the property's quantifier");
    run.assume("the property's 'randomly' clause for the real primes is replaced by all pairs of a boundary alphabet; other 250-bit values are not covered");
}

/// Worker entry: evaluates one binary operation, prints value / err / panic.
pub fn worker(input: &Value) -> Value {
    let parse = |k: &str| {
        BigInt::parse_bytes(input[k].as_str().unwrap_or("0").as_bytes(), 10).unwrap_or_default()
    };
    let (a, b, p) = (parse("a"), parse("b"), parse("p"));
    let Some(op) = ALL_BINOPS.iter().copied().find(|o| Some(o.name()) == input["op"].as_str()) else {
        return json!({"machinery_error": "unknown op"});
    };
    match catch(|| real_binop(op, &a, &b, &p)) {
        Ok(Got::Value(v)) => json!({"value": v.to_string()}),
        Ok(Got::Err) => json!({"err": true}),
        Err(pan) => json!({"panic": format!("{}:{}: {}", pan.file, pan.line, pan.message)}),
    }
}

pub fn replay(case: &Value) -> Vec<Violation> {
    let parse = |k: &str| {
        BigUint::parse_bytes(case[k].as_str().unwrap_or("0").as_bytes(), 10).unwrap_or_default()
    };
    let (a, p) = (parse("a"), parse("p"));
    let f = Field::new(&p);
    let name = case["op"].as_str().unwrap_or("");
    match case["kind"].as_str() {
        Some("binop") => {
            let b = parse("b");
            let Some(op) = ALL_BINOPS.iter().copied().find(|o| o.name() == name) else {
                return Vec::new();
            };
            check_binop(&f, op, &a, &b, None)
        }
        Some("row") => {
            // Re-run every operation of this left operand (used for hang reports).
            let mut out = Vec::new();
            let rights: Vec<BigUint> = if f.bits <= 10 {
                (0..crate::refsem::field::usize_of(&f.p)).map(BigUint::from).collect()
            } else {
                boundary_alphabet(&f)
            };
            for op in ALL_UNOPS {
                out.extend(check_unop(&f, op, &a));
            }
            for b in &rights {
                for op in ALL_BINOPS {
                    out.extend(check_binop(&f, op, &a, b, None));
                }
            }
            out
        }
        Some("unop") | Some("as_bool") => {
            let mut out = Vec::new();
            for op in ALL_UNOPS {
                if op.name() == name || name == "as_bool" {
                    out.extend(check_unop(&f, op, &a));
                }
            }
            out
        }
        _ => Vec::new(),
    }
}

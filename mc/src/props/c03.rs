//! C03 — report conservation and output contract.
//! (a) every analysis order of the real `AnalysisRunner` (hook H3) x every instantiation digraph
//!     on <= 3 templates (+ a function): displayed(d) must equal the findings of d in isolation;
//! (b) exit status / summary count / SARIF agree with what is displayed, for the full lattice of
//!     (level, allow-subset, verbose, sarif) through the binary;
//! (c) filter law: displayed(level, allow) = model(unfiltered run).
use crate::infra::{par_each, work_dir, Run, Tier, Violation};
use crate::sut::bin::{run_bin, sarif_results, BinOpts, BinRun};
use crate::sut::pipe;
use crate::sut::runner::{self, finding_of, Collector, Finding};
use program_structure::cfg::IntoCfg;
use program_structure::constants::Curve;
use program_structure::report::{Report, ReportCollection};
use serde_json::{json, Value};
use std::collections::BTreeMap;
use std::path::Path;
use std::time::Duration;

// ---------------------------------------------------------------------------------------------
// (a) conservation under every lookup order

pub fn template_src(i: usize, edges: u32, n: usize, calls_f: bool) -> String {
    let mut s = format!("template T{i}(n) {{\n    signal input in;\n    signal output out;\n    var x = 0;\n");
    if calls_f {
        s.push_str("    var k = F(n);\n");
    }
    s.push_str(&format!("    if (n > {i}) {{\n        var x = 1;\n        out <-- in * x;\n    }} else {{\n        out <-- in;\n    }}\n"));
    for j in 0..n {
        if edges >> (i * n + j) & 1 == 1 {
            s.push_str(&format!("    component c{j} = T{j}(n);\n    c{j}.in <== in;\n"));
        }
    }
    if n == 3 && i == 2 {
        // The last template of a three-template project also fails SSA conversion (a local is
        // read before it is assigned): its lifting-stage warning and the error are both due.
        s.push_str("    var u;\n    var w = u + 1;\n");
    }
    s.push_str("}\n");
    s
}

pub const FUNCTION_SRC: &str = "function F(a) {\n    var y = 0;\n    if (a > 0) {\n        var y = 1;\n        return y;\n    }\n    return a + y;\n}\n";

/// Definitions of the project, in file order: (kind, name, source).
pub fn definitions(n: usize, edges: u32) -> Vec<(&'static str, String, String)> {
    let mut defs = Vec::new();
    for i in 0..n {
        defs.push(("template", format!("T{i}"), template_src(i, edges, n, i == 0)));
    }
    defs.push(("function", "F".to_string(), FUNCTION_SRC.to_string()));
    defs
}

fn multiset(findings: &[Finding]) -> BTreeMap<String, usize> {
    let mut m = BTreeMap::new();
    for f in findings {
        *m.entry(f.short()).or_insert(0) += 1;
    }
    m
}

fn to_findings(reports: &[Report], lib: &program_structure::file_definition::FileLibrary) -> Vec<Finding> {
    reports.iter().map(|r| finding_of(r, lib)).collect()
}

/// Findings of one definition in isolation: its own lifting reports plus every pass, with a fresh
/// runner serving look-ups of other definitions.
fn isolation_reference(src: &str, files: &[std::path::PathBuf]) -> Result<BTreeMap<String, usize>, String> {
    let def = match pipe::parse(src) {
        Ok(Some(def)) => def,
        _ => return Err("definition does not parse".into()),
    };
    let mut loaded = runner::load(files, &[], Curve::Bn254).map_err(|p| p.signature())?;
    let lib = loaded.runner.file_library().clone();
    let mut reports = ReportCollection::new();
    let result = crate::infra::catch(|| {
        let mut all: Vec<Report> = Vec::new();
        match def.into_cfg(&Curve::Bn254, &mut reports) {
            Ok(cfg) => match cfg.into_ssa() {
                Ok(cfg) => {
                    all.append(&mut reports);
                    for pass in program_analysis::get_analysis_passes() {
                        all.append(&mut pass(&mut loaded.runner, &cfg));
                    }
                }
                Err(e) => {
                    all.append(&mut reports);
                    all.push(e.into());
                }
            },
            Err(e) => {
                all.append(&mut reports);
                all.push(e.into());
            }
        }
        all
    });
    match result {
        Ok(all) => Ok(multiset(&to_findings(&all, &lib))),
        Err(p) => Err(p.signature()),
    }
}

pub struct OrderStats {
    pub histories: u64,
    pub events: u64,
    pub states: u64,
}

fn permutations(n: usize) -> Vec<Vec<usize>> {
    fn rec(cur: &mut Vec<usize>, used: &mut Vec<bool>, n: usize, out: &mut Vec<Vec<usize>>) {
        if cur.len() == n {
            out.push(cur.clone());
            return;
        }
        for i in 0..n {
            if !used[i] {
                used[i] = true;
                cur.push(i);
                rec(cur, used, n, out);
                cur.pop();
                used[i] = false;
            }
        }
    }
    let mut out = Vec::new();
    rec(&mut Vec::new(), &mut vec![false; n], n, &mut out);
    out
}

pub fn check_shape(n: usize, edges: u32, dir: &Path, case: &Value) -> (Vec<Violation>, OrderStats) {
    let mut out = Vec::new();
    let mut stats = OrderStats { histories: 0, events: 0, states: 0 };
    let defs = definitions(n, edges);
    // With a main component the project goes through the definition merger (program archive)
    // instead of the template library.
    let main = if case["main"].as_bool().unwrap_or(false) { "\ncomponent main = T0(1);\n" } else { "" };
    let text: String = format!("pragma circom 2.0.0;\n{}{main}", defs.iter().map(|d| d.2.clone()).collect::<Vec<_>>().join("\n"));
    let files = runner::write_project(dir, &[("p.circom", &text)]);
    // Reference: each definition in isolation.
    let mut reference: Vec<BTreeMap<String, usize>> = Vec::new();
    for (_, name, src) in &defs {
        match isolation_reference(src, &files) {
            Ok(m) => reference.push(m),
            Err(e) => {
                out.push(Violation {
                    signature: format!("MACHINERY-reference/{e}"),
                    what: format!("cannot compute the isolation reference of {name}"),
                    case: case.clone(),
                    expected: "reference".into(),
                    observed: text.clone(),
                });
                return (out, stats);
            }
        }
    }
    let mut seen_states: std::collections::BTreeSet<String> = std::collections::BTreeSet::new();
    for order in permutations(defs.len()) {
        stats.histories += 1;
        let mut loaded = match runner::load(&files, &[], Curve::Bn254) {
            Ok(l) => l,
            Err(p) => {
                out.push(Violation {
                    signature: p.signature(),
                    what: "loading the project panicked".into(),
                    case: case.clone(),
                    expected: "project loads".into(),
                    observed: format!("{}:{} {}", p.file, p.line, p.message),
                });
                return (out, stats);
            }
        };
        let lib = loaded.runner.file_library().clone();
        let mut displayed_all: Vec<Finding> = Vec::new();
        let mut prefix = String::new();
        for &d in &order {
            let (kind, name, _) = &defs[d];
            let mut collector = Collector::default();
            let r = crate::infra::catch(|| {
                if *kind == "template" {
                    loaded.runner.verif_analyze_template(name, &mut collector);
                } else {
                    loaded.runner.verif_analyze_function(name, &mut collector);
                }
            });
            stats.events += 1;
            prefix.push_str(&format!("{d},"));
            // A state is the history that reaches it; canonical fingerprint = cache keys.
            let keys = loaded.runner.verif_cache_keys();
            seen_states.insert(format!("{}|{prefix}|{keys:?}", order.len()));
            let mut c = case.clone();
            c["order"] = json!(order);
            if let Err(p) = r {
                out.push(Violation {
                    signature: p.signature(),
                    what: format!("analysing {name} panicked"),
                    case: c,
                    expected: "analysis completes".into(),
                    observed: format!("{}:{} {}", p.file, p.line, p.message),
                });
                return (out, stats);
            }
            let shown = to_findings(&collector.reports, &lib);
            let got = multiset(&shown);
            if got != reference[d] {
                let missing: Vec<String> = reference[d]
                    .iter()
                    .filter(|(k, v)| got.get(*k).copied().unwrap_or(0) < **v)
                    .map(|(k, _)| k.clone())
                    .collect();
                let extra: Vec<String> = got
                    .iter()
                    .filter(|(k, v)| reference[d].get(*k).copied().unwrap_or(0) < **v)
                    .map(|(k, _)| k.clone())
                    .collect();
                let ids = |v: &Vec<String>| {
                    let mut ids: Vec<String> = v.iter().map(|s| s.split_whitespace().next().unwrap_or("").to_string()).collect();
                    ids.sort();
                    ids.dedup();
                    ids.join("+")
                };
                let sig = if !missing.is_empty() {
                    format!("lost/{}/{}", ids(&missing), kind)
                } else {
                    format!("extra/{}/{}", ids(&extra), kind)
                };
                out.push(Violation {
                    signature: sig,
                    what: format!("findings displayed for {kind} {name} differ from its findings in isolation (analysis order {order:?})"),
                    case: c.clone(),
                    expected: format!("{:?}", reference[d]),
                    observed: format!("missing {missing:?} extra {extra:?}\n{text}"),
                });
            }
            // Nothing is displayed twice.
            for f in &shown {
                if displayed_all.contains(f) {
                    out.push(Violation {
                        signature: format!("twice/{}", f.id),
                        what: format!("finding displayed twice: {}", f.short()),
                        case: c.clone(),
                        expected: "each finding exactly once".into(),
                        observed: format!("{f:?}"),
                    });
                }
            }
            displayed_all.extend(shown);
        }
    }
    stats.states = seen_states.len() as u64;
    (out, stats)
}

// ---------------------------------------------------------------------------------------------
// (b), (c) output contract and filter law through the binary

pub const CORPUS: [(&str, &str); 6] = [
    (
        "mixed",
        "pragma circom 2.0.0;\n\nfunction g(a) {\n    var unused = 3;\n    return a * 2;\n}\n\ntemplate A(n) {\n    signal input in;\n    signal output out;\n    signal mid;\n    var x = 0;\n    mid <-- in / 2;\n    if (1 == 1) {\n        x = g(n);\n    }\n    out <-- ~in;\n    component c = Num2Bits(254);\n    c.in <== in;\n}\n\ntemplate Num2Bits(n) {\n    signal input in;\n    signal output out[n];\n    var lc = 0;\n    for (var i = 0; i < n; i++) {\n        out[i] <-- (in >> i) & 1;\n        out[i] * (out[i] - 1) === 0;\n        lc += out[i] * 2 ** i;\n    }\n    lc === in;\n}\n\ncomponent main = A(2);\n",
    ),
    (
        "clean",
        "pragma circom 2.0.0;\n\ntemplate Id() {\n    signal input in;\n    signal output out;\n    out <== in;\n}\n\ncomponent main = Id();\n",
    ),
    (
        "nopragma",
        "template B(n) {\n    signal input in;\n    signal output out;\n    var y = n + 1;\n    out <-- in * in;\n    in === out;\n}\n",
    ),
    (
        "errors",
        "pragma circom 2.0.0;\n\ntemplate E(n, n) {\n    signal input in;\n    signal output out;\n    out <== in;\n}\n\ntemplate F() {\n    signal input in;\n    signal output out;\n    out <-- in;\n    out === undefined_name;\n}\n",
    ),
    (
        // Several findings that agree on rule id and primary location (one per unused output
        // port of the same component), and - with the extra inputs below - several findings
        // with the same id and no location at all.
        "twins",
        "pragma circom 2.0.0;\n\ntemplate Two() {\n    signal input in;\n    signal output o1;\n    signal output o2;\n    signal output o3[2];\n    o1 <== in;\n    o2 <== in;\n    o3[0] <== in;\n    o3[1] <== in;\n}\n\ntemplate W() {\n    signal input in;\n    signal output out;\n    component t = Two();\n    t.in <== in;\n    component u[2];\n    for (var i = 0; i < 2; i++) {\n        u[i] = Two();\n        u[i].in <== in;\n    }\n    out <-- in;\n    out <-- in;\n}\n\ncomponent main = W();\n",
    ),
    (
        // The included file (see `included_text`) has parse-phase reports of its own: an include
        // that cannot be resolved, a malformed tuple, a clash with a definition of this file.
        "inc-errors",
        "pragma circom 2.0.0;\n\ntemplate Lib() {\n    signal input in;\n    signal output out;\n    out <-- in * in * in;\n}\n\ntemplate User() {\n    signal input in;\n    signal output out;\n    component l = Lib();\n    l.in <== in;\n    out <== l.out;\n}\n",
    ),
];

/// Text of the included file of a corpus project.
pub fn included_text(name: &str) -> &'static str {
    if name == "inc-errors" {
        "pragma circom 2.1.0;\ninclude \"missing.circom\";\n\ntemplate Lib() {\n    signal input in;\n    signal output out;\n    out <-- in;\n}\n\ntemplate BadTuple() {\n    signal input a;\n    signal output b;\n    signal output c;\n    (b, c) <== (a, a, a);\n}\n"
    } else {
        INCLUDED
    }
}

/// Input arguments of a corpus project: the main file and, for `twins`, two files that do not
/// exist (named by absolute path so that every run prints the same message).
pub fn corpus_inputs(name: &str, dir: &Path, main: &str) -> String {
    if name == "twins" {
        format!("{main} {0}/nosuch1.circom {0}/nosuch2.circom", dir.display())
    } else {
        main.to_string()
    }
}

pub const INCLUDED: &str = "pragma circom 2.0.0;\n\ntemplate Lib() {\n    signal input in;\n    signal output out;\n    out <-- in;\n}\n";

fn level_rank(l: &str) -> u8 {
    match l {
        "error" => 2,
        "warning" => 1,
        _ => 0,
    }
}

/// Key of a displayed diagnostic that is also recoverable from SARIF.
fn diag_key(d: &crate::sut::bin::Diagnostic) -> String {
    let loc = d.location.as_ref().map(|(p, l, c)| format!("{p}:{l}:{c}")).unwrap_or_default();
    format!("{}|{}|{}|{}", d.id.clone().unwrap_or_default(), d.level(), d.message, loc)
}

fn sarif_key(r: &crate::sut::bin::SarifResult) -> String {
    let level = match r.level.as_str() {
        "note" => "info",
        other => other,
    };
    let loc = r
        .locations
        .first()
        .map(|(uri, l, c, _, _, _)| format!("{}:{l}:{c}", uri.trim_start_matches("file://")))
        .unwrap_or_default();
    format!("{}|{}|{}|{}", r.rule_id, level, r.message, loc)
}

fn sorted(mut v: Vec<String>) -> Vec<String> {
    v.sort();
    v
}

pub fn run_config(dir: &Path, file: &str, level: &str, allow: &[String], verbose: bool, sarif: bool) -> BinRun {
    // `file` may name several inputs, separated by spaces.
    let mut args: Vec<String> = file.split(' ').map(String::from).collect();
    args.extend(["--level".to_string(), level.to_string()]);
    for a in allow {
        args.push("--allow".into());
        args.push(a.clone());
    }
    if verbose {
        args.push("--verbose".into());
    }
    let sarif_file = if sarif { Some(dir.join(format!("out-{}.sarif", std::thread::current().name().unwrap_or("t").len()))) } else { None };
    if let Some(f) = &sarif_file {
        args.push("--sarif-file".into());
        args.push(f.display().to_string());
    }
    run_bin(&BinOpts { args, cwd: dir, hash_seed: Some(1), timeout: Duration::from_secs(60), sarif_file, mem_limit: None })
}

pub fn check_contract(name: &str, dir: &Path, file: &str, level: &str, allow: &[String], verbose: bool, sarif: bool, unfiltered: &[crate::sut::bin::Diagnostic], case: &Value) -> Vec<Violation> {
    let mut out = Vec::new();
    let run = run_config(dir, file, level, allow, verbose, sarif);
    let mut push = |sig: String, what: String, expected: String, observed: String| {
        out.push(Violation { signature: sig, what, case: case.clone(), expected, observed });
    };
    if run.timed_out || run.killed_by_signal.is_some() || run.panicked() {
        push(
            if run.timed_out { "hang/contract".to_string() } else { run.panic_signature().unwrap_or_else(|| "crash".into()) },
            format!("the binary crashed or hung on corpus project {name}"),
            "exit status 0 or 1".into(),
            format!("exit {:?} signal {:?} timeout {} stderr {}", run.exit, run.killed_by_signal, run.timed_out, crate::infra::truncate(&run.stderr, 300)),
        );
        return out;
    }
    let shown = run.diagnostics.len();
    // exit status 0 exactly when nothing was displayed
    let exit_ok = matches!((run.exit, shown), (Some(0), 0)) || (run.exit == Some(1) && shown > 0);
    if !exit_ok {
        push(
            "contract/exit-status".into(),
            format!("exit status {:?} with {shown} diagnostics displayed", run.exit),
            "exit 0 exactly when nothing is displayed, else 1".into(),
            crate::infra::truncate(&run.stdout, 800),
        );
    }
    match run.summary_count() {
        Some(n) if n == shown => {}
        other => push(
            "contract/summary-count".into(),
            format!("summary line says {other:?} but {shown} diagnostics were displayed"),
            format!("{shown}"),
            format!("{:?}", run.summary),
        ),
    }
    // filter law against the unfiltered run (ids are only visible with --verbose)
    let expected: Vec<&crate::sut::bin::Diagnostic> = unfiltered
        .iter()
        .filter(|d| level_rank(d.level()) >= level_rank(level))
        .filter(|d| !allow.contains(&d.id.clone().unwrap_or_default()))
        .collect();
    let strip = |d: &crate::sut::bin::Diagnostic| {
        let mut d = d.clone();
        if !verbose {
            d.id = None;
        }
        diag_key(&d)
    };
    let exp_keys = sorted(expected.iter().map(|d| strip(d)).collect());
    let got_keys = sorted(run.diagnostics.iter().map(|d| strip(d)).collect());
    if exp_keys != got_keys {
        let missing: Vec<&String> = exp_keys.iter().filter(|k| !got_keys.contains(k)).collect();
        let extra: Vec<&String> = got_keys.iter().filter(|k| !exp_keys.contains(k)).collect();
        push(
            format!("filter/{}", if !missing.is_empty() { "missing" } else { "extra" }),
            format!("displayed set under --level {level} --allow {allow:?} differs from the filter law applied to the unfiltered run"),
            format!("{exp_keys:?}"),
            format!("missing {missing:?} extra {extra:?}"),
        );
    }
    if sarif {
        match &run.sarif {
            None => {
                push(
                    "sarif/missing-file".into(),
                    format!("--sarif-file given but no valid SARIF file was written ({shown} diagnostics displayed)"),
                    "a SARIF file holding exactly the displayed findings (an empty results array if none)".into(),
                    crate::infra::truncate(&run.stdout, 400),
                );
            }
            Some(s) => {
                let (results, rules) = sarif_results(s);
                if verbose {
                    let s_keys = sorted(results.iter().map(sarif_key).collect());
                    let d_keys = sorted(run.diagnostics.iter().map(diag_key).collect());
                    if s_keys != d_keys {
                        push(
                            "sarif/results-differ".into(),
                            "SARIF results differ from the displayed findings (rule id, level, message, uri, start line/column)".into(),
                            format!("{d_keys:?}"),
                            format!("{s_keys:?}"),
                        );
                    }
                } else if results.len() != shown {
                    push(
                        "sarif/result-count".into(),
                        format!("SARIF holds {} results but {shown} findings were displayed", results.len()),
                        format!("{shown}"),
                        format!("{}", results.len()),
                    );
                }
                let mut ids: Vec<String> = results.iter().map(|r| r.rule_id.clone()).collect();
                ids.sort();
                ids.dedup();
                let mut rules_sorted = rules.clone();
                rules_sorted.sort();
                let dup = rules_sorted.windows(2).any(|w| w[0] == w[1]);
                rules_sorted.dedup();
                if !rules.is_empty() && (dup || rules_sorted != ids) {
                    push(
                        "sarif/rule-descriptors".into(),
                        "SARIF rule descriptors are not exactly one per result id".into(),
                        format!("{ids:?}"),
                        format!("{rules:?}"),
                    );
                }
            }
        }
    }
    out
}

/// Compares the binary's `--level info` output with the in-process, unfiltered findings to which
/// the file clause of the property has been applied.
pub fn check_file_clause(name: &str, dir: &Path, unfiltered: &BinRun, case: &Value) -> Vec<Violation> {
    let mut out = Vec::new();
    let files = vec![dir.join("main.circom")];
    let mut loaded = match runner::load(&files, &[], Curve::Bn254) {
        Ok(l) => l,
        Err(_) => return out,
    };
    let collected = match runner::analyze_all(&mut loaded) {
        Ok(c) => c,
        Err(_) => return out,
    };
    let lib = loaded.runner.file_library().clone();
    let all = to_findings(&collected.reports, &lib);
    let expected: Vec<String> = sorted(
        all.iter()
            .filter(|f| f.primary.is_empty() || f.primary.iter().any(|l| l.user_input))
            .map(|f| format!("{} [{}] {}", f.id, f.level, f.message))
            .collect(),
    );
    let got: Vec<String> = sorted(
        unfiltered
            .diagnostics
            .iter()
            .map(|d| format!("{} [{}] {}", d.id.clone().unwrap_or_default(), d.level(), d.message))
            .collect(),
    );
    if expected != got {
        let missing: Vec<&String> = expected.iter().filter(|k| !got.contains(k)).collect();
        let extra: Vec<&String> = got.iter().filter(|k| !expected.contains(k)).collect();
        let ids = |v: &Vec<&String>| {
            let mut ids: Vec<String> = v.iter().map(|s| s.split_whitespace().next().unwrap_or("").to_string()).collect();
            ids.sort();
            ids.dedup();
            ids.join("+")
        };
        let sig = if !missing.is_empty() { format!("file-clause/not-displayed/{}", ids(&missing)) } else { format!("file-clause/extra/{}", ids(&extra)) };
        out.push(Violation {
            signature: sig,
            what: format!("corpus {name}: findings produced by the analysis and not located solely in an included file are not all displayed at --level info"),
            case: case.clone(),
            expected: format!("{expected:?}"),
            observed: format!("missing {missing:?} extra {extra:?}"),
        });
    }
    out
}

/// (d): files related by includes (chain, diamond), named in every sequence of length <= 3 with
/// repetition: what is displayed is the disjoint union, over the *distinct* named files, of what
/// is displayed when that file is named alone (a file named twice, or named and also included by
/// another named file, contributes once).
pub fn check_named_sequences(dir: &Path, max_len: usize, case: &Value) -> (Vec<Violation>, u64) {
    let lib = "pragma circom 2.0.0;\n\nfunction dbl(a) {\n    var unused = 3;\n    return a * 2;\n}\n\ntemplate Lib() {\n    signal input in;\n    signal output out;\n    signal output aux;\n    out <-- in;\n    aux <== in;\n}\n";
    let a = "pragma circom 2.0.0;\ninclude \"lib.circom\";\n\ntemplate A(n) {\n    signal input in;\n    signal output out;\n    var x = dbl(n);\n    if (n > 1) {\n        var x = 2;\n    }\n    component l = Lib();\n    l.in <== in;\n    out <-- l.out * x;\n}\n";
    let c = "pragma circom 2.0.0;\ninclude \"lib.circom\";\n\ntemplate C() {\n    signal input in;\n    signal output out;\n    component l = Lib();\n    l.in <== in;\n    out <== l.aux;\n}\n";
    let top = "pragma circom 2.0.0;\ninclude \"a.circom\";\ninclude \"c.circom\";\n\ntemplate Top() {\n    signal input in;\n    signal output out;\n    component a = A(2);\n    component c = C();\n    a.in <== in;\n    c.in <== in;\n    out <-- a.out + c.out;\n}\n\ncomponent main = Top();\n";
    let names = ["lib.circom", "a.circom", "c.circom", "top.circom"];
    runner::write_project(dir, &[(names[0], lib), (names[1], a), (names[2], c), (names[3], top)]);
    let keys = |r: &BinRun| -> Vec<String> { sorted(r.diagnostics.iter().map(diag_key).map(|k| k.replace("../", "")).collect()) };
    let alone: Vec<Vec<String>> = names.iter().map(|n| keys(&run_config(dir, n, "info", &[], true, false))).collect();
    let mut out = Vec::new();
    let mut evals = 0u64;
    for len in 1..=max_len {
        for code in 0..names.len().pow(len as u32) {
            let seq: Vec<usize> = (0..len).map(|i| code / names.len().pow(i as u32) % names.len()).collect();
            let mut distinct = seq.clone();
            distinct.sort();
            distinct.dedup();
            let expected = sorted(distinct.iter().flat_map(|i| alone[*i].clone()).collect());
            let args: Vec<&str> = seq.iter().map(|i| names[*i]).collect();
            evals += 1;
            let run = run_config(dir, &args.join(" "), "info", &[], true, false);
            let got = keys(&run);
            let count_ok = run.summary_count() == Some(got.len());
            if got != expected || !count_ok {
                let missing: Vec<&String> = expected.iter().filter(|k| !got.contains(k)).collect();
                let extra: Vec<String> = {
                    let mut pool = expected.clone();
                    got.iter().filter(|k| match pool.iter().position(|p| p == *k) { Some(i) => { pool.remove(i); false } None => true }).cloned().collect()
                };
                let id = |k: &String| k.split('|').next().unwrap_or("").to_string();
                let sig = if let Some(k) = extra.first() { format!("named-sequence/extra/{}", id(k)) } else if let Some(k) = missing.first() { format!("named-sequence/missing/{}", id(k)) } else { "named-sequence/summary-count".to_string() };
                let mut c = case.clone();
                c["sequence"] = json!(args);
                out.push(Violation {
                    signature: sig,
                    what: format!("naming {args:?} does not display each finding of the distinct named files exactly once"),
                    case: c,
                    expected: format!("{expected:?}"),
                    observed: format!("missing {missing:?} extra {extra:?} summary {:?}", run.summary),
                });
                return (out, evals);
            }
        }
    }
    (out, evals)
}

/// (e): output contract at finding counts around the powers of 256 (a status or a counter that
/// is narrowed somewhere wraps exactly there): a function with N never-read locals yields N
/// findings (plus the constant ones of the file), exit status 1 and a summary that says so.
pub fn check_count(n: usize, dir: &Path, case: &Value) -> Vec<Violation> {
    let mut src = String::from("pragma circom 2.0.0;\nfunction many(q) {\n");
    for i in 0..n {
        src.push_str(&format!("    var v{i} = q;\n"));
    }
    src.push_str("    return q;\n}\n");
    runner::write_project(dir, &[("count.circom", &src)]);
    let sarif = dir.join("count.sarif");
    let run = run_bin(&BinOpts {
        args: vec!["count.circom".into(), "--level".into(), "warning".into(), "--sarif-file".into(), sarif.display().to_string()],
        cwd: dir,
        hash_seed: Some(1),
        timeout: Duration::from_secs(120),
        sarif_file: Some(sarif),
        mem_limit: None,
    });
    let shown = run.diagnostics.len();
    let sarif_n = run.sarif.as_ref().map(|s| sarif_results(s).0.len());
    let mut out = Vec::new();
    let ok = shown == n && run.exit == Some(if n == 0 { 0 } else { 1 }) && run.summary_count() == Some(n) && sarif_n == Some(n);
    if !ok {
        out.push(Violation {
            signature: "contract/count-boundary".into(),
            what: format!("a file with exactly {n} findings: {shown} displayed, exit status {:?}, summary {:?}, {sarif_n:?} SARIF results", run.exit, run.summary),
            case: case.clone(),
            expected: format!("{n} displayed, exit status {}, summary count {n}, {n} SARIF results", if n == 0 { 0 } else { 1 }),
            observed: crate::infra::truncate(&run.stderr, 300),
        });
    }
    out
}

pub fn run(run: &Run) {
    run.set_rule(
        "(a) projects of n templates + 1 function, the instantiation relation ranging over every \
         digraph on the templates (self loops included), each definition carrying a CFG-stage \
         finding (shadowing) and pass-stage findings; for each shape every permutation of \
         analyze(d) events on the real AnalysisRunner; (b,c) corpus projects x full lattice \
         level{info,warning,error} x every subset of the ids occurring in the unfiltered run x \
         verbose x sarif through the binary; (d) four files related by includes (chain, diamond, main on top) named in every \
         sequence of length <= 3 with repetition: displayed = disjoint union over the distinct named files of \
         what each displays alone; (e) files with exactly N findings for N around the multiples of 256 (thorough: up to 65537): N displayed, exit 1, summary N, N SARIF results; non-trivial = shape with at least one instantiation \
         edge / configuration that filters at least one finding",
    );
    let base = work_dir("c03");
    // (a)
    let mut shapes: Vec<(usize, u32)> = Vec::new();
    for e in 0..(1u32 << 4) {
        shapes.push((2, e));
    }
    for e in 0..(1u32 << 9) {
        shapes.push((3, e));
    }
    if run.tier == Tier::Thorough {
        // 4 templates: every instantiation relation with at most 3 edges.
        for e in 0..(1u32 << 16) {
            if e.count_ones() <= 3 {
                shapes.push((4, e));
            }
        }
    }
    run.set_extra("shapes", json!(shapes.len()));
    par_each(&shapes, |i, (n, edges)| {
        let dir = base.join(format!("shape-{i}"));
        // Every second shape is a complete program (with a main component).
        let case = json!({"kind": "order", "n": n, "edges": edges, "main": i % 2 == 1});
        run.watch(&case);
        let (vs, stats) = check_shape(*n, *edges, &dir, &case);
        run.eval(stats.histories);
        run.add_states(stats.states);
        run.add_transitions(stats.events);
        run.add_traces(stats.histories);
        if *edges != 0 {
            run.nontrivial(1);
        }
        if i % 37 == 0 {
            run.outcome(&format!("order:n={n},violations={}", vs.len().min(3)));
            if run.want_sample() {
                run.sample(json!({"n": n, "edges": edges, "histories": stats.histories, "project": definitions(*n, *edges).iter().map(|d| d.2.clone()).collect::<Vec<_>>()}));
            }
        }
        run.violations(vs);
        let _ = std::fs::remove_dir_all(&dir);
    });
    // (b), (c)
    let max_ids = run.tier.pick(4, 8);
    for (name, text) in CORPUS {
        let dir = base.join(format!("corpus-{name}"));
        let main = format!("include \"lib.circom\";\n{text}");
        let main = if text.starts_with("pragma") {
            // keep the pragma first
            let (first, rest) = text.split_once('\n').unwrap();
            format!("{first}\ninclude \"lib.circom\";\n{rest}")
        } else {
            main
        };
        runner::write_project(&dir, &[("main.circom", &main), ("lib.circom", included_text(name))]);
        let unfiltered_main = run_config(&dir, "main.circom", "info", &[], true, false);
        let unfiltered = run_config(&dir, &corpus_inputs(name, &dir, "main.circom"), "info", &[], true, false);
        // File clause: everything the analysis produces (in-process, unfiltered) that is not
        // located solely in an only-included file must be displayed at --level info.
        {
            let case = json!({"kind": "file-clause", "corpus": name});
            run.eval(1);
            run.nontrivial(1);
            run.violations(check_file_clause(name, &dir, &unfiltered_main, &case));
        }
        let mut ids: Vec<String> = unfiltered.diagnostics.iter().filter_map(|d| d.id.clone()).collect();
        ids.sort();
        ids.dedup();
        if ids.len() > max_ids {
            run.cap(&format!("corpus {name}: allow-subsets restricted to the first {max_ids} of {} ids", ids.len()));
            ids.truncate(max_ids);
        }
        run.set_extra(&format!("corpus_{name}_ids"), json!(ids));
        let mut configs: Vec<(String, Vec<String>, bool, bool)> = Vec::new();
        for level in ["info", "warning", "error"] {
            for subset in 0..(1u32 << ids.len()) {
                let allow: Vec<String> = ids.iter().enumerate().filter(|(i, _)| subset >> i & 1 == 1).map(|(_, s)| s.clone()).collect();
                for verbose in [true, false] {
                    for sarif in [true, false] {
                        configs.push((level.to_string(), allow.clone(), verbose, sarif));
                    }
                }
            }
        }
        run.set_extra(&format!("corpus_{name}_configurations"), json!(configs.len()));
        let unfiltered_diags = unfiltered.diagnostics.clone();
        par_each(&configs, |i, (level, allow, verbose, sarif)| {
            let case = json!({"kind": "contract", "corpus": name, "level": level, "allow": allow, "verbose": verbose, "sarif": sarif});
            if run.too_many_hangs() {
                return;
            }
            run.watch(&case);
            let sub = dir.join(format!("w{i}"));
            let _ = std::fs::create_dir_all(&sub);
            // Each configuration writes its SARIF file into its own directory.
            let vs = check_contract(name, &sub, &corpus_inputs(name, &dir, "../main.circom"), level, allow, *verbose, *sarif, &unfiltered_diags, &case);
            run.eval(1);
            if !allow.is_empty() || level != "info" {
                run.nontrivial(1);
            }
            if i % 17 == 0 {
                run.outcome(&format!("contract:{name}:{level}:violations={}", vs.len().min(3)));
            }
            run.violations(vs);
            let _ = std::fs::remove_dir_all(&sub);
        });
        let _ = std::fs::remove_dir_all(&dir);
    }
    // (d)
    {
        let case = json!({"kind": "named-sequences", "max_len": 3});
        run.idle();
        let (vs, k) = check_named_sequences(&base.join("named"), 3, &case);
        run.idle();
        run.eval(k);
        run.nontrivial(k);
        run.set_extra("named_file_sequences", json!(k));
        run.violations(vs);
    }
    // (e)
    {
        let counts: Vec<usize> = match run.tier {
            Tier::Quick => vec![0, 1, 255, 256, 257, 512],
            Tier::Thorough => vec![0, 1, 255, 256, 257, 511, 512, 513, 1024, 4096, 65535, 65536, 65537],
        };
        run.idle();
        par_each(&counts, |_, n| {
            let case = json!({"kind": "count", "n": n});
            run.eval(1);
            run.nontrivial(1);
            run.violations(check_count(*n, &base.join(format!("count{n}")), &case));
        });
    }
    let _ = std::fs::remove_dir_all(&base);
    run.assume("findings are compared as (id, level, message) multisets in (a) and as (id, level, message, file:line:col) in (b,c)");
}

pub fn replay(case: &Value) -> Vec<Violation> {
    let base = work_dir("c03-replay");
    let out = match case["kind"].as_str() {
        Some("order") => {
            let n = case["n"].as_u64().unwrap_or(2) as usize;
            let edges = case["edges"].as_u64().unwrap_or(0) as u32;
            check_shape(n, edges, &base, case).0
        }
        Some("count") => check_count(case["n"].as_u64().unwrap_or(256) as usize, &base, case),
        Some("named-sequences") => check_named_sequences(&base, case["max_len"].as_u64().unwrap_or(3) as usize, case).0,
        Some("contract") => {
            let name = case["corpus"].as_str().unwrap_or("mixed");
            let Some((_, text)) = CORPUS.iter().find(|(n, _)| *n == name) else { return Vec::new() };
            let main = if text.starts_with("pragma") {
                let (first, rest) = text.split_once('\n').unwrap();
                format!("{first}\ninclude \"lib.circom\";\n{rest}")
            } else {
                format!("include \"lib.circom\";\n{text}")
            };
            runner::write_project(&base, &[("main.circom", &main), ("lib.circom", included_text(name))]);
            let unfiltered = run_config(&base, &corpus_inputs(name, &base, "main.circom"), "info", &[], true, false);
            let allow: Vec<String> = case["allow"].as_array().map(|a| a.iter().filter_map(|v| v.as_str().map(String::from)).collect()).unwrap_or_default();
            let sub = base.join("w");
            let _ = std::fs::create_dir_all(&sub);
            check_contract(
                name,
                &sub,
                &corpus_inputs(name, &base, "../main.circom"),
                case["level"].as_str().unwrap_or("info"),
                &allow,
                case["verbose"].as_bool().unwrap_or(true),
                case["sarif"].as_bool().unwrap_or(false),
                &unfiltered.diagnostics,
                case,
            )
        }
        _ => Vec::new(),
    };
    let _ = std::fs::remove_dir_all(&base);
    out
}

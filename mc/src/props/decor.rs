//! Shared machinery of C04 and C05(b): base programs, decorations inserted in token gaps, and
//! normalised findings obtained through the real parser, desugarer, lifter and passes (route B).
use crate::refsem::lexer::blank_comments;
use crate::space::tokens::tokenize;
use crate::sut::runner::{self, finding_of, Finding};
use program_structure::constants::Curve;
use std::path::Path;

/// Comment-free base programs, one per pass family / report stage.
pub fn corpus() -> Vec<(&'static str, String)> {
    // Comments of the base files are blanked: decorations must land in code.
    raw_corpus().into_iter().map(|(n, t)| (n, blank_comments(&t).unwrap_or(t))).collect()
}

fn raw_corpus() -> Vec<(&'static str, String)> {
    vec![
        ("mixed", super::c03::CORPUS[0].1.to_string()),
        ("passes", super::c17::PASS_CORPUS.to_string()),
        ("sugar", super::c18::pair_program("(s1, s2) <== TO2()(a);\n    signal u <== T2(n)(in1 <-- a * a * b, in2 <== b);\n    log(\"v\", u);")),
        ("arrows", super::c08::build(&[(0, 1), (3, 2), (9, 0), (11, 0)], 0).text),
        ("shadow", "pragma circom 2.0.0;\nfunction F(a, b) {\n    var y = 0;\n    if (a > 0) {\n        var y = 1;\n        return y;\n    }\n    return a + y;\n}\ntemplate S(n) {\n    signal input in;\n    signal output out;\n    var x = 0;\n    for (var i = 0; i < n; i++) {\n        var x = i;\n        x += 1;\n    }\n    out <-- in * x;\n}\n".to_string()),
        ("params", "pragma circom 2.0.0;\nfunction F(k, r, unused) {\n    k = r + 1;\n    return r;\n}\ntemplate P(n, m, spare) {\n    signal input in;\n    signal output out;\n    n = 0;\n    var t = m;\n    t = t + 1;\n    out <== in * m;\n}\n".to_string()),
        // A file without any token: with a decoration it is a comment-only file.
        ("empty", "\n".to_string()),
        // Duplicate definitions (library mode) whose headers are not `keyword name(`.
        ("dups", "pragma circom 2.1.0;\ntemplate Add() {\n    signal input a;\n    signal output b;\n    b <== a;\n}\ntemplate parallel Mul() {\n    signal input a;\n    signal output b;\n    b <== a * a;\n}\nfunction sq(x) {\n    return x * x;\n}\ntemplate   Add() {\n    signal input a;\n    signal output b;\n    b <== a + 1;\n}\ntemplate parallel Mul() {\n    signal input a;\n    signal output b;\n    b <== a;\n}\nfunction\n    sq(x) {\n    return x;\n}\n".to_string()),
        ("errors", super::c03::CORPUS[3].1.to_string()),
        ("parse-error", "pragma circom 2.0.0;\ntemplate P() {\n    signal input in;\n    signal output out;\n    out <== in +;\n}\n".to_string()),
        ("bad-sugar", "pragma circom 2.1.0;\ntemplate Q() {\n    signal input in;\n    signal output out;\n    (out, in) <== (1, 2, 3);\n}\nfunction G(a) {\n    var (p, q) = (a, a);\n    return p;\n}\n".to_string()),
    ]
}

/// Byte offsets at which a decoration may be inserted: before every token and at the end.
pub fn gaps(text: &str) -> Vec<usize> {
    let mut v: Vec<usize> = tokenize(text).iter().map(|t| t.range.start).collect();
    v.push(text.len());
    v
}

pub fn insert(text: &str, at: usize, decoration: &str) -> String {
    format!("{}{}{}", &text[..at], decoration, &text[at..])
}

pub struct Analysed {
    pub findings: Vec<Finding>,
    /// Labels whose range is not valid for the file they name: (finding, label description).
    pub invalid_labels: Vec<String>,
}

/// Everything the analysis produces for a single-file project (unfiltered).
pub fn analyse(text: &str, dir: &Path) -> Result<Analysed, String> {
    let files = runner::write_project(dir, &[("d.circom", text)]);
    let mut loaded = runner::load(&files, &[], Curve::Bn254).map_err(|p| p.signature())?;
    let collected = runner::analyze_all(&mut loaded).map_err(|p| p.signature())?;
    let lib = loaded.runner.file_library().clone();
    let mut findings = Vec::new();
    let mut invalid = Vec::new();
    for r in &collected.reports {
        let f = finding_of(r, &lib);
        for (kind, labels) in [("primary", &f.primary), ("secondary", &f.secondary)] {
            for l in labels {
                if l.text.is_none() {
                    let why = match runner::name_and_source(&lib, l.file_id).1 {
                        None => "names a file that was not read".to_string(),
                        Some(s) => {
                            if l.start > l.end {
                                "start > end".to_string()
                            } else if l.end > s.len() {
                                format!("end {} beyond the file ({} bytes)", l.end, s.len())
                            } else {
                                "not on a character boundary".to_string()
                            }
                        }
                    };
                    invalid.push(format!("{} {kind} label {}..{}: {why}", f.short(), l.start, l.end));
                }
            }
        }
        findings.push(f);
    }
    Ok(Analysed { findings, invalid_labels: invalid })
}

/// Comments blanked, runs of whitespace collapsed, trimmed.
pub fn squeeze(text: &str) -> String {
    let blanked = blank_comments(text).unwrap_or_else(|| text.to_string());
    blanked.split_whitespace().collect::<Vec<_>>().join(" ")
}

/// Position-independent form of a finding (labels by their text).
pub fn by_text(f: &Finding) -> String {
    let labels = |ls: &Vec<runner::LabelInfo>| sorted(ls.iter().map(|l| format!("<{}|{}>", l.message, l.text.as_deref().map(squeeze).unwrap_or_else(|| "?".into()))).collect()).join("");
    format!("{} [{}] {} P{} S{}", f.id, f.level, f.message, labels(&f.primary), labels(&f.secondary))
}

/// Form of a finding including byte positions (paths excluded).
pub fn by_position(f: &Finding) -> String {
    // Labels are compared as sets: their order inside a finding is not part of the finding.
    // (The label messages are part of what the user reads: generated names appear there.)
    let labels = |ls: &Vec<runner::LabelInfo>| sorted(ls.iter().map(|l| format!("<{}..{}|{}>", l.start, l.end, l.message)).collect()).join("");
    format!("{} [{}] {} P{} S{} N{:?}", f.id, f.level, f.message, labels(&f.primary), labels(&f.secondary), f.notes)
}

pub fn sorted(mut v: Vec<String>) -> Vec<String> {
    v.sort();
    v
}

/// 1-based (line, column in characters) of a byte offset.
pub fn line_col(text: &str, offset: usize) -> (usize, usize) {
    // An offset inside a multi-byte character is rounded down (codespan does the same).
    let mut offset = offset.min(text.len());
    while !text.is_char_boundary(offset) {
        offset -= 1;
    }
    let before = &text[..offset];
    let line = before.matches('\n').count() + 1;
    let line_start = before.rfind('\n').map(|i| i + 1).unwrap_or(0);
    (line, before[line_start..].chars().count() + 1)
}

//! C06 — constant propagation is sound: every constant attributed to an IR node equals the
//! node's concrete value at every dynamic evaluation in every run of the reference interpreter
//! over the real SSA CFG. Two exhaustive sweeps: the operator table (all operators x a literal
//! alphabet x three primes) and the control-flow sweep (skeletons x atoms x conditions x
//! parameter valuations).
use super::valspace::*;
use crate::infra::{par_each, Run, Tier, Violation};
use crate::refsem::field::{real_primes, Field};
use crate::refsem::interp::{Machine, Stop, TableWorld};
use crate::space::prog::print_def;
use crate::space::skel::enumerate;
use crate::sut::pipe::{self, LiftError};
use num_bigint_dig::BigUint;
use program_structure::cfg::Cfg;
use serde_json::{json, Value};
use std::collections::HashMap;

pub struct Audit {
    pub violations: Vec<Violation>,
    pub lifted: bool,
    pub claims: u64,
    pub runs: u64,
    pub discarded: u64,
}

/// Runs the interpreter for every valuation of `n` and audits all value claims.
pub fn audit_cfg(cfg: &Cfg, field: &Field, src: &str, case: &Value, tag: &str) -> Audit {
    let mut out = Audit { violations: Vec::new(), lifted: true, claims: 0, runs: 0, discarded: 0 };
    for n in param_values(field) {
        let mut values = HashMap::new();
        values.insert("n".to_string(), n.clone());
        let world = TableWorld { values, default: BigUint::from(3u32) };
        let mut audit = ValueAudit::new(field);
        let mut machine = Machine::new(cfg, field, &world, 600);
        let stop = machine.run(&mut audit);
        out.runs += 1;
        out.claims += audit.claims_checked;
        if let Stop::Trap(_) = stop {
            out.discarded += 1;
        }
        if let Stop::Malformed(m) = &stop {
            out.violations.push(Violation {
                signature: "MACHINERY-malformed-graph".into(),
                what: format!("interpreter met a malformed graph: {m}"),
                case: case.clone(),
                expected: "well-formed CFG (C12)".into(),
                observed: src.to_string(),
            });
        }
        if let Some(m) = audit.first {
            let mut c = case.clone();
            c["n"] = json!(n.to_string());
            out.violations.push(Violation {
                signature: format!("{}{}", m.coordinate, tag),
                what: format!("node `{}` is claimed to be {} but evaluates to {} when n = {n}", m.node, m.claimed, m.actual),
                case: c,
                expected: format!("claimed constant {} holds in every run", m.claimed),
                observed: format!("{} in the run n = {n} (path {:?})\n{src}\n{}", m.actual, machine.path, super::cfgcheck::dump_cfg(cfg)),
            });
            break;
        }
    }
    out
}

pub fn audit_source(src: &str, curve: &str, field: &Field, case: &Value) -> Audit {
    if case["route"].as_str() == Some("runner") {
        // Replay of a route-B case.
        let root = crate::infra::work_dir("c06-replay");
        let name = if src.contains("template T(") { "T" } else { "f" };
        let out = match pipe::lift_via_runner_curve(src, &root, name, name == "f", case["main"].as_bool().unwrap_or(false), pipe::curve_of(curve)) {
            Ok(cfg) => audit_cfg(&cfg, field, src, case, "/runner"),
            Err(_) => Audit { violations: Vec::new(), lifted: false, claims: 0, runs: 0, discarded: 0 },
        };
        let _ = std::fs::remove_dir_all(&root);
        return out;
    }
    match pipe::lift(src, &pipe::curve_of(curve)) {
        Ok((cfg, _)) => audit_cfg(&cfg, field, src, case, ""),
        Err(LiftError::NotParsed) => Audit {
            violations: vec![Violation {
                signature: "MACHINERY-not-parsed".into(),
                what: "generated program rejected by the parser".into(),
                case: case.clone(),
                expected: "accepted".into(),
                observed: src.to_string(),
            }],
            lifted: false,
            claims: 0,
            runs: 0,
            discarded: 0,
        },
        // Panics and rejections are C01 / C02 material; here the program is simply not judged.
        Err(_) => Audit { violations: Vec::new(), lifted: false, claims: 0, runs: 0, discarded: 0 },
    }
}

#[derive(Clone)]
pub enum TableCase {
    Bin(usize, usize, usize),
    Un(usize, usize),
    Tern(usize, usize, usize),
    Bool(usize, usize, usize, usize, usize),
    /// (operator, literal, side, template?)
    MixedBin(usize, usize, usize, usize),
    /// (position, a, b, template?)
    MixedTern(usize, usize, usize, usize),
    /// (operator, a, b, side of the negated literal)
    NegLit(usize, usize, usize, usize),
}

pub fn table_cases(alphabet_len: usize, tier: Tier) -> Vec<TableCase> {
    let mut v = Vec::new();
    let nb = binop_symbols().len();
    for op in 0..nb {
        for a in 0..alphabet_len {
            for b in 0..alphabet_len {
                v.push(TableCase::Bin(op, a, b));
            }
        }
    }
    for op in 0..unop_symbols().len() {
        for a in 0..alphabet_len {
            v.push(TableCase::Un(op, a));
        }
    }
    let tern_step = tier.pick(3, 1);
    for c in (0..alphabet_len).step_by(tern_step) {
        for a in (0..alphabet_len).step_by(tern_step) {
            for b in 0..alphabet_len {
                v.push(TableCase::Tern(c, a, b));
            }
        }
    }
    // Boolean connectives over a 5-value sub-alphabet (first five values and the last two).
    let small: Vec<usize> = vec![0, 1, 2, alphabet_len - 2, alphabet_len - 1];
    for r1 in 0..6 {
        for l in 0..2 {
            for r2 in 0..6 {
                for a in &small {
                    for b in &small {
                        v.push(TableCase::Bool(r1, l, r2, *a, *b));
                    }
                }
            }
        }
    }
    // One operand unknown, the other a literal.
    for op in 0..nb {
        for a in 0..alphabet_len {
            for side in 0..2 {
                for template in 0..2 {
                    v.push(TableCase::MixedBin(op, a, side, template));
                }
            }
        }
    }
    for op in 0..nb {
        for a in &small {
            for b in &small {
                for side in 0..2 {
                    v.push(TableCase::NegLit(op, *a, *b, side));
                }
            }
        }
    }
    for pos in 0..4 {
        for a in &small {
            for b in &small {
                for template in 0..2 {
                    v.push(TableCase::MixedTern(pos, *a, *b, template));
                }
            }
        }
    }
    v
}

pub fn table_source(case: &TableCase, alphabet: &[BigUint]) -> String {
    match case {
        TableCase::Bin(op, a, b) => binop_program(binop_symbols()[*op], &alphabet[*a], &alphabet[*b]),
        TableCase::Un(op, a) => unop_program(unop_symbols()[*op], &alphabet[*a]),
        TableCase::Tern(c, a, b) => ternary_program(&alphabet[*c], &alphabet[*a], &alphabet[*b]),
        TableCase::Bool(r1, l, r2, a, b) => bool_program(
            COMPARISONS[*r1],
            ["&&", "||"][*l],
            COMPARISONS[*r2],
            &alphabet[*a],
            &alphabet[*b],
        ),
        TableCase::MixedBin(op, a, side, template) => mixed_binop_program(binop_symbols()[*op], &alphabet[*a], *side, *template == 1),
        TableCase::MixedTern(pos, a, b, template) => mixed_ternary_program(*pos, &alphabet[*a], &alphabet[*b], *template == 1),
        TableCase::NegLit(op, a, b, side) => negated_literal_program(binop_symbols()[*op], &alphabet[*a], &alphabet[*b], *side),
    }
}

pub fn table_case_json(case: &TableCase, curve: &str) -> Value {
    match case {
        TableCase::Bin(op, a, b) => json!({"kind": "table", "curve": curve, "form": "bin", "ix": [op, a, b]}),
        TableCase::Un(op, a) => json!({"kind": "table", "curve": curve, "form": "un", "ix": [op, a]}),
        TableCase::Tern(c, a, b) => json!({"kind": "table", "curve": curve, "form": "tern", "ix": [c, a, b]}),
        TableCase::Bool(r1, l, r2, a, b) => json!({"kind": "table", "curve": curve, "form": "bool", "ix": [r1, l, r2, a, b]}),
        TableCase::MixedBin(op, a, side, t) => json!({"kind": "table", "curve": curve, "form": "mixed-bin", "ix": [op, a, side, t]}),
        TableCase::MixedTern(pos, a, b, t) => json!({"kind": "table", "curve": curve, "form": "mixed-tern", "ix": [pos, a, b, t]}),
        TableCase::NegLit(op, a, b, side) => json!({"kind": "table", "curve": curve, "form": "neg-lit", "ix": [op, a, b, side]}),
    }
}

pub fn table_case_from_json(v: &Value) -> Option<TableCase> {
    let ix: Vec<usize> = v["ix"].as_array()?.iter().map(|x| x.as_u64().unwrap_or(0) as usize).collect();
    Some(match v["form"].as_str()? {
        "bin" => TableCase::Bin(ix[0], ix[1], ix[2]),
        "un" => TableCase::Un(ix[0], ix[1]),
        "tern" => TableCase::Tern(ix[0], ix[1], ix[2]),
        "bool" => TableCase::Bool(ix[0], ix[1], ix[2], ix[3], ix[4]),
        "mixed-bin" => TableCase::MixedBin(ix[0], ix[1], ix[2], ix[3]),
        "mixed-tern" => TableCase::MixedTern(ix[0], ix[1], ix[2], ix[3]),
        "neg-lit" => TableCase::NegLit(ix[0], ix[1], ix[2], ix[3]),
        _ => return None,
    })
}

pub fn signal_paths_source(consts: &[usize], tested: usize, with_else: bool) -> String {
    let mut body = String::new();
    for (i, c) in consts.iter().enumerate() {
        let last = i + 1 == consts.len();
        if i == 0 {
            body.push_str(&format!("    if (n == 0) {{\n        t <-- {c};\n    }}"));
        } else if last && with_else {
            body.push_str(&format!(" else {{\n        t <-- {c};\n    }}"));
        } else {
            body.push_str(&format!(" else if (n == {i}) {{\n        t <-- {c};\n    }}"));
        }
    }
    format!("template T(n) {{\n    signal input in;\n    signal output out;\n    signal t;\n{body}\n    var w = 0;\n    if (t == {tested}) {{\n        w = 1;\n    }}\n    out <-- w + t;\n}}\n")
}

pub fn run(run: &Run) {
    run.set_rule(
        "operator table: for each of the three primes, `var x = A; var y = B; var z = x op y` (20 infix, \
         3 prefix, ternary, boolean connectives over comparisons) for all A, B in a 14-value literal \
         alphabet {0,1,2,3,253,254,255,10^11,p/2,p/2+1,p-2,p-1,2^64,2^(bits-2)}, and the same operators \
         with one operand unknown (parameter in a function / input signal in a template, either side) \
         and ternaries / prefix operators with unknown parts, and with a negated literal as either operand (5-value sub-alphabet); a scalar signal assigned constants from {1,2,3} in every chain of 2-4 branches and then tested; control flow: every \
         skeleton (braced bodies, for) up to the statement bound x every assignment of 7 atoms and 4 \
         conditions, as function and as template, run for n in {0,1,2,p-1}; non-trivial = the program \
         lifts and at least one value claim was compared with a concrete value",
    );
    // Operator table.
    for (curve, p) in real_primes() {
        let field = Field::new(&p);
        let alphabet = literal_alphabet(&field);
        let cases = table_cases(alphabet.len(), run.tier);
        run.set_extra(&format!("table_programs_{curve}"), json!(cases.len()));
        par_each(&cases, |i, tc| {
            let src = table_source(tc, &alphabet);
            let case = table_case_json(tc, curve);
            run.watch(&case);
            let audit = audit_source(&src, curve, &field, &case);
            run.eval(1);
            if audit.lifted && audit.claims > 0 {
                run.nontrivial(1);
            }
            run.add_extra_count("interpreter_runs", audit.runs);
            run.add_extra_count("value_claims_compared", audit.claims);
            if i % 401 == 0 {
                run.outcome(&format!("table:lifted={}", audit.lifted));
                if run.want_sample() && i > 0 {
                    run.sample(json!({"curve": curve, "program": src}));
                }
            }
            run.violations(audit.violations);
        });
    }
    // Control flow.
    let max = 4;
    let skels = enumerate(cf_opts(max));
    run.set_extra("cf_skeletons", json!(skels.len()));
    run.set_extra("cf_max_statements", json!(max));
    let curves: Vec<(&str, BigUint)> = match run.tier {
        Tier::Quick => real_primes().into_iter().take(1).collect(),
        Tier::Thorough => real_primes(),
    };
    for (curve, p) in curves {
        let field = Field::new(&p);
        par_each(&skels, |i, skel| {
            let na: usize = skel.iter().map(|s| s.atoms()).sum();
            let nc: usize = skel.iter().map(|s| s.conds()).sum();
            for ac in 0..CF_ATOMS.pow(na as u32) {
                let atoms = digits(ac, CF_ATOMS, na);
                for cc in 0..CF_CONDS.pow(nc as u32) {
                    let conds = digits(cc, CF_CONDS, nc);
                    for is_function in [true, false] {
                        let case = json!({"kind": "cf", "curve": curve, "max_stmts": max, "index": i,
                            "atoms": atoms, "conds": conds, "function": is_function});
                        let def = cf_def(skel, &atoms, &conds, is_function);
                        let src = print_def(&def).text;
                        run.watch(&case);
                        let audit = audit_source(&src, curve, &field, &case);
                        run.eval(1);
                        if audit.lifted && audit.claims > 0 {
                            run.nontrivial(1);
                        }
                        run.add_extra_count("interpreter_runs", audit.runs);
                        run.add_extra_count("value_claims_compared", audit.claims);
                        run.add_extra_count("runs_discarded_at_a_trap", audit.discarded);
                        if (i + ac + cc) % 1009 == 0 {
                            run.outcome(&format!("cf:lifted={},claims>0={}", audit.lifted, audit.claims > 0));
                            if run.want_sample() && na >= 2 {
                                run.sample(json!({"curve": curve, "program": src}));
                            }
                        }
                        run.violations(audit.violations);
                    }
                }
            }
        });
    }

    // Scalar signals (not versioned by SSA) assigned constants on alternative paths: every chain
    // of 2..4 branches x every assignment of {1,2,3} to the branches x every constant tested.
    {
        let (curve, p) = real_primes().into_iter().next().unwrap();
        let field = Field::new(&p);
        let mut programs: Vec<(Vec<usize>, usize, bool)> = Vec::new();
        for k in 2..=4usize {
            for code in 0..3usize.pow(k as u32) {
                let consts: Vec<usize> = (0..k).map(|i| code / 3usize.pow(i as u32) % 3 + 1).collect();
                for tested in 1..=3 {
                    programs.push((consts.clone(), tested, false));
                    programs.push((consts.clone(), tested, true));
                }
            }
        }
        par_each(&programs, |_, (consts, tested, with_else)| {
            let src = signal_paths_source(consts, *tested, *with_else);
            let case = json!({"kind": "signal-paths", "curve": curve, "consts": consts, "tested": tested, "else": with_else});
            run.watch(&case);
            let audit = audit_source(&src, curve, &field, &case);
            run.eval(1);
            if audit.lifted && audit.claims > 0 {
                run.nontrivial(1);
            }
            run.add_extra_count("value_claims_compared", audit.claims);
            run.violations(audit.violations);
        });
    }
    // Route B: the same audit on the CFG the real runner builds from a file (BN254), for a slice
    // of the operator table and the control-flow programs of <= 2 statements.
    {
        let root = crate::infra::work_dir("c06");
        // The table slice under every curve: the curve the runner was built with must be the
        // one its CFGs compute with.
        for (curve, p) in real_primes() {
            let field = Field::new(&p);
            let alphabet = literal_alphabet(&field);
            let cases = table_cases(alphabet.len(), run.tier);
            let slice: Vec<&TableCase> = cases.iter().step_by(if curve == "BN254" { 5 } else { 11 }).collect();
            par_each(&slice, |_, tc| {
                let src = table_source(tc, &alphabet);
                let mut case = table_case_json(tc, curve);
                case["route"] = json!("runner");
                run.watch(&case);
                let dir = root.join(format!("{:?}", std::thread::current().id()).replace(|c: char| !c.is_ascii_alphanumeric(), ""));
                run.eval(1);
                let is_template = src.contains("template T(");
                if let Ok(cfg) = pipe::lift_via_runner_curve(&src, &dir, if is_template { "T" } else { "f" }, !is_template, false, pipe::curve_of(curve)) {
                    let audit = audit_cfg(&cfg, &field, &src, &case, "/runner");
                    run.add_extra_count("value_claims_compared_via_runner", audit.claims);
                    run.violations(audit.violations);
                }
            });
        }
        let (_, p) = real_primes().into_iter().next().unwrap();
        let field = Field::new(&p);
        let small = enumerate(cf_opts(2));
        par_each(&small, |i, skel| {
            let na: usize = skel.iter().map(|s| s.atoms()).sum();
            let nc: usize = skel.iter().map(|s| s.conds()).sum();
            let dir = root.join(format!("{:?}", std::thread::current().id()).replace(|c: char| !c.is_ascii_alphanumeric(), ""));
            for ac in 0..CF_ATOMS.pow(na as u32) {
                let atoms = digits(ac, CF_ATOMS, na);
                for cc in 0..CF_CONDS.pow(nc as u32) {
                    let conds = digits(cc, CF_CONDS, nc);
                    for (is_function, with_main) in [(true, false), (false, false), (false, true)] {
                        let case = json!({"kind": "cf", "route": "runner", "curve": "BN254", "max_stmts": 2, "index": i,
                            "atoms": atoms, "conds": conds, "function": is_function, "main": with_main});
                        run.watch(&case);
                        let def = cf_def(skel, &atoms, &conds, is_function);
                        let src = print_def(&def).text;
                        run.eval(1);
                        if let Ok(cfg) = pipe::lift_via_runner(&src, &dir, &def.name, is_function, with_main) {
                            let audit = audit_cfg(&cfg, &field, &src, &case, "/runner");
                            run.add_extra_count("value_claims_compared_via_runner", audit.claims);
                            run.violations(audit.violations);
                        }
                    }
                }
            }
        });
        let _ = std::fs::remove_dir_all(&root);
    }
    run.assume("uninitialised locals are 0 (Circom's default initialisation); they are only declared outside loops");
    run.assume("runs that divide by zero, index out of range or read an unassigned signal are discarded from that point on");
    run.assume("literals are below the field size (the property's quantifier)");
}

pub fn replay(case: &Value) -> Vec<Violation> {
    let curve = case["curve"].as_str().unwrap_or("BN254").to_string();
    let p = real_primes().into_iter().find(|(n, _)| *n == curve).map(|(_, p)| p).unwrap();
    let field = Field::new(&p);
    match case["kind"].as_str() {
        Some("table") => {
            let alphabet = literal_alphabet(&field);
            match table_case_from_json(case) {
                Some(tc) => audit_source(&table_source(&tc, &alphabet), &curve, &field, case).violations,
                None => Vec::new(),
            }
        }
        Some("signal-paths") => {
            let (curve, p) = real_primes().into_iter().next().unwrap();
            let field = Field::new(&p);
            let consts: Vec<usize> = case["consts"].as_array().map(|a| a.iter().map(|v| v.as_u64().unwrap_or(1) as usize).collect()).unwrap_or_default();
            let src = signal_paths_source(&consts, case["tested"].as_u64().unwrap_or(1) as usize, case["else"].as_bool().unwrap_or(false));
            audit_source(&src, curve, &field, case).violations
        }
        Some("cf") => {
            let max = case["max_stmts"].as_u64().unwrap_or(3) as usize;
            let index = case["index"].as_u64().unwrap_or(0) as usize;
            let get = |k: &str| -> Vec<usize> {
                case[k].as_array().map(|a| a.iter().map(|v| v.as_u64().unwrap_or(0) as usize).collect()).unwrap_or_default()
            };
            let skels = enumerate(cf_opts(max));
            match skels.get(index) {
                Some(skel) => {
                    let def = cf_def(skel, &get("atoms"), &get("conds"), case["function"].as_bool().unwrap_or(true));
                    audit_source(&print_def(&def).text, &curve, &field, case).violations
                }
                None => Vec::new(),
            }
        }
        _ => Vec::new(),
    }
}

//! C11 — curve-dependent checks follow the documented table and thresholds exactly. The table
//! is parsed from doc/analysis_passes.md at check time; the domain (table names + near misses,
//! sizes 0..300, spellings of the curve names) is finite and fully enumerated.
use crate::infra::{par_each, work_dir, Run, Violation};
use crate::refsem::field::real_primes;
use crate::sut::bin::{run_bin, BinOpts};
use crate::sut::pipe::{self, curve_of, CURVES};
use num_bigint_dig::BigUint;
use num_traits::One;
use program_structure::constants::Curve;
use serde_json::{json, Value};
use std::collections::BTreeSet;
use std::str::FromStr;
use std::time::Duration;

/// (template name with Circomlib's spelling, marked for Goldilocks, marked for BLS12-381)
pub fn doc_table() -> Result<Vec<(String, bool, bool)>, String> {
    let text = std::fs::read_to_string("/repo/doc/analysis_passes.md").map_err(|e| e.to_string())?;
    let mut rows = Vec::new();
    let mut in_table = false;
    for line in text.lines() {
        if line.starts_with("| Template") && line.contains("Goldilocks") {
            in_table = true;
            continue;
        }
        if in_table {
            if !line.starts_with('|') {
                break;
            }
            let cells: Vec<&str> = line.trim_matches('|').split('|').map(|c| c.trim()).collect();
            if cells.len() != 3 || cells[0].starts_with(":-") {
                continue;
            }
            let mut name = cells[0].trim_matches('`').to_string();
            // Circomlib spells the two point-bits templates with a capital S.
            if name == "Bits2Point_strict" || name == "Point2Bits_strict" {
                name = name.replace("_strict", "_Strict");
            }
            rows.push((name, cells[1] == "x", cells[2] == "x"));
        }
    }
    if rows.len() < 20 {
        return Err(format!("only {} rows parsed from the documented table", rows.len()));
    }
    Ok(rows)
}

fn near_misses(name: &str) -> Vec<String> {
    let mut v = vec![
        name.to_lowercase(),
        name.to_uppercase(),
        format!("{name}2"),
        format!("{name}_"),
        format!("My{name}"),
        name[..name.len() - 1].to_string(),
        name[1..].to_string(),
    ];
    // swap case of the first letter / of the letter after an underscore
    let mut chars: Vec<char> = name.chars().collect();
    if chars[0].is_ascii_uppercase() {
        chars[0] = chars[0].to_ascii_lowercase();
    } else {
        chars[0] = chars[0].to_ascii_uppercase();
    }
    v.push(chars.iter().collect());
    if let Some(pos) = name.find('_') {
        let mut chars: Vec<char> = name.chars().collect();
        if pos + 1 < chars.len() {
            chars[pos + 1] = if chars[pos + 1].is_ascii_uppercase() { chars[pos + 1].to_ascii_lowercase() } else { chars[pos + 1].to_ascii_uppercase() };
            v.push(chars.iter().collect());
        }
    }
    v.retain(|n| n != name && n.chars().next().map(|c| c.is_ascii_alphabetic()).unwrap_or(false));
    v
}

fn count_reports(src: &str, curve: &Curve, id: &str) -> Result<usize, String> {
    match pipe::lift(src, curve) {
        Ok((cfg, _)) => match pipe::run_passes(&cfg) {
            Ok(reports) => Ok(reports.iter().filter(|r| r.id() == id).count()),
            Err(p) => Err(p.signature()),
        },
        Err(pipe::LiftError::NotParsed) => Err("not parsed".into()),
        Err(pipe::LiftError::Rejected { message, .. }) => Err(format!("rejected: {message}")),
        Err(pipe::LiftError::Panic { info, .. }) => Err(info.signature()),
    }
}

pub fn instantiation(form: usize, name: &str) -> String {
    match form {
        0 => format!("template M() {{\n    signal input in;\n    component c = {name}();\n}}\n"),
        1 => format!("template M() {{\n    signal input in;\n    component c[2];\n    c[1] = {name}();\n}}\n"),
        _ => format!("template M(n) {{\n    signal input in;\n    component c;\n    if (n > 0) {{\n        c = {name}(n, 2);\n    }}\n}}\n"),
    }
}

/// Ids of the three findings, learned from positive controls so that the check does not
/// hard-code them.
pub struct Ids {
    pub bn254_specific: String,
    pub nonstrict: String,
    pub less_than: String,
}

pub fn learn_ids() -> Result<Ids, String> {
    let find = |src: &str, curve: &Curve, needle: &str| -> Result<String, String> {
        let (cfg, _) = pipe::lift(src, curve).map_err(|_| "control does not lift".to_string())?;
        let reports = pipe::run_passes(&cfg).map_err(|p| p.signature())?;
        reports.iter().find(|r| r.message().contains(needle)).map(|r| r.id()).ok_or_else(|| format!("control for `{needle}` produced no finding"))
    };
    Ok(Ids {
        bn254_specific: find(&instantiation(0, "Sign"), &Curve::Goldilocks, "BN254 specific")?,
        nonstrict: find("template M() {\n    signal input in;\n    component c = Num2Bits(254);\n}\n", &Curve::Bn254, "aliasing")?,
        less_than: find(&less_than_program("n"), &Curve::Bn254, "LessThan")?,
    })
}

pub fn less_than_program(k: &str) -> String {
    format!(
        "template M(n) {{\n    signal input a;\n    signal input b;\n    signal output ok;\n    var k = 100;\n    var j = 8;\n    var pad = 0;\n    if (n > 1) {{\n        if (n > 8) {{\n            j = n;\n        }}\n        pad = 1;\n    }}\n    component n2b[2];\n    n2b[0] = Num2Bits({k});\n    n2b[0].in <== a;\n    n2b[1] = Num2Bits({k});\n    n2b[1].in <== b;\n    component lt = LessThan({k});\n    lt.in[0] <== a;\n    lt.in[1] <== b;\n    ok <== lt.out;\n}}\n"
    )
}

/// Other wirings of the same range checks. Returns (program, inputs that are range-checked by
/// `Num2Bits(k)` only - each must be flagged when a k-bit value can exceed p/2).
pub fn less_than_shape(shape: usize, k: &str) -> (String, usize) {
    let head = "template M(n) {\n    signal input a;\n    signal input b;\n    signal output ok;\n    var k = 100;\n    var j = 8;\n    var pad = 0;\n    if (n > 1) {\n        if (n > 8) {\n            j = n;\n        }\n        pad = 1;\n    }\n";
    let tail = format!("    component lt = LessThan({k});\n    lt.in[0] <== a;\n    lt.in[1] <== b;\n    ok <== lt.out;\n}}\n");
    let (body, must) = match shape {
        // separately named components
        0 => (format!("    component ca = Num2Bits({k});\n    ca.in <== a;\n    component cb = Num2Bits({k});\n    cb.in <== b;\n"), 2),
        // the same name in sibling scopes: `a` is checked with k bits only, `b` with 8 bits
        1 => (format!("    if (n == 1) {{\n        component c = Num2Bits({k});\n        c.in <== a;\n    }} else {{\n        component c = Num2Bits(8);\n        c.in <== b;\n    }}\n"), 1),
        // the other way round
        2 => (format!("    if (n == 1) {{\n        component c = Num2Bits(8);\n        c.in <== b;\n    }} else {{\n        component c = Num2Bits({k});\n        c.in <== a;\n    }}\n"), 1),
        // a shadowing declaration in a nested block
        3 => (format!("    component c = Num2Bits(8);\n    c.in <== b;\n    {{\n        component c = Num2Bits({k});\n        c.in <== a;\n    }}\n"), 1),
        // checks declared after the comparison, components declared first and wired later
        4 => (format!("    component ca;\n    component cb;\n    ca = Num2Bits({k});\n    cb = Num2Bits({k});\n    cb.in <== b;\n    ca.in <== a;\n"), 2),
        // a two-dimensional component array
        _ => (format!("    component cs[2][2];\n    cs[0][1] = Num2Bits({k});\n    cs[0][1].in <== a;\n    cs[1][0] = Num2Bits({k});\n    cs[1][0].in <== b;\n"), 2),
    };
    (format!("{head}{body}{tail}"), must)
}
pub const LESS_THAN_SHAPES: usize = 6;
pub static SHAPES_JUDGED: std::sync::atomic::AtomicU64 = std::sync::atomic::AtomicU64::new(0);
pub static SHAPES_NOT_LIFTED: std::sync::atomic::AtomicU64 = std::sync::atomic::AtomicU64::new(0);

pub fn check_name(name: &str, expected: (bool, bool), ids: &Ids, case: &Value) -> Vec<Violation> {
    let mut out = Vec::new();
    for form in 0..3 {
        for curve in CURVES {
            let expect = match curve {
                "GOLDILOCKS" => expected.0,
                "BLS12_381" => expected.1,
                _ => false,
            };
            let src = instantiation(form, name);
            match count_reports(&src, &curve_of(curve), &ids.bn254_specific) {
                Ok(n) => {
                    if (n > 0) != expect || n > 1 {
                        out.push(Violation {
                            signature: format!("table/{}/{curve}", if expect { "missing" } else { "spurious" }),
                            what: format!("instantiating `{name}` under {curve}: {n} BN254-specific findings, the documented table says {}", if expect { "one" } else { "none" }),
                            case: case.clone(),
                            expected: format!("{}", expect as usize),
                            observed: format!("{n}\n{src}"),
                        });
                    }
                }
                Err(e) => out.push(Violation {
                    signature: format!("MACHINERY-{e}"),
                    what: "instantiation program was not analysed".into(),
                    case: case.clone(),
                    expected: "analysed".into(),
                    observed: src,
                }),
            }
        }
    }
    out
}

/// Statements in front of the instantiation: locals the size forms use. `j` is assigned in an `if`
/// nested in an `if` (its value at the instantiation is not a constant); with `large` a table of
/// 1500 constant definitions precedes it (the size argument is resolved late).
pub fn size_prelude(large: bool) -> String {
    let mut s = String::from("    var k = 100;\n    var j = 8;\n    var pad = 0;\n    if (n > 1) {\n        if (n > 8) {\n            j = n;\n        }\n        pad = 1;\n    }\n");
    if large {
        for i in 0..1500 {
            s.push_str(&format!("    var t{i} = {};\n", i % 7 + 1));
        }
    }
    s
}

pub fn check_size(arg: &str, constant: Option<u64>, ids: &Ids, case: &Value) -> Vec<Violation> {
    check_size_in(arg, constant, ids, case, false)
}

pub fn check_size_in(arg: &str, constant: Option<u64>, ids: &Ids, case: &Value, large: bool) -> Vec<Violation> {
    let mut out = Vec::new();
    let primes = real_primes();
    let prelude = size_prelude(large);
    for template in ["Num2Bits", "Bits2Num"] {
        for curve in CURVES {
            let src = format!("template M(n) {{\n    signal input in;\n{prelude}    component c = {template}({arg});\n}}\n");
            let expect = curve == "BN254" && !matches!(constant, Some(n) if n < 254);
            match count_reports(&src, &curve_of(curve), &ids.nonstrict) {
                Ok(n) => {
                    if (n > 0) != expect || n > 1 {
                        out.push(Violation {
                            signature: format!("nonstrict/{}/{curve}", if expect { "missing" } else { "spurious" }),
                            what: format!("`{template}({arg})` under {curve}: {n} non-strict conversion findings, expected {}", expect as usize),
                            case: case.clone(),
                            expected: format!("{}", expect as usize),
                            observed: format!("{n}\n{src}"),
                        });
                    }
                }
                Err(e) => out.push(Violation { signature: format!("MACHINERY-{e}"), what: "not analysed".into(), case: case.clone(), expected: "analysed".into(), observed: src }),
            }
        }
    }
    // The same instantiation written as an anonymous component, at the top level and inside a
    // loop body (desugared by the real front end: route B).
    if !large {
        // (one directory per process, one sub-directory per thread; removed at the end of `run`)
        static ANON_DIR: std::sync::OnceLock<std::path::PathBuf> = std::sync::OnceLock::new();
        let dir = ANON_DIR.get_or_init(|| crate::infra::work_dir("c11-anon")).clone();
        for (shape, body) in [
            ("anon", format!("    signal o[400];\n    o <== Num2Bits({arg})(in);\n")),
            ("anon-in-loop", format!("    signal o[2][400];\n    for (var i = 0; i < 2; i++) {{\n        o[i] <== Num2Bits({arg})(in);\n    }}\n")),
        ] {
            let src = format!("pragma circom 2.1.0;\ntemplate Num2Bits(m) {{\n    signal input in;\n    signal output out[400];\n    out[0] <== in;\n}}\ntemplate M(n) {{\n    signal input in;\n{prelude}{body}}}\n");
            let expect = !matches!(constant, Some(n) if n < 254);
            let tdir = dir.join(format!("{:?}", std::thread::current().id()).replace(|c: char| !c.is_ascii_alphanumeric(), ""));
            if let Ok(cfg) = pipe::lift_via_runner_curve(&src, &tdir, "M", false, false, Curve::Bn254) {
                if let Ok(reports) = pipe::run_passes(&cfg) {
                    let n = reports.iter().filter(|r| r.id() == ids.nonstrict).count();
                    if (n > 0) != expect {
                        out.push(Violation {
                            signature: format!("nonstrict/{}/{shape}", if expect { "missing" } else { "spurious" }),
                            what: format!("`Num2Bits({arg})` as an anonymous component ({shape}) under BN254: {n} non-strict conversion findings, expected {}", expect as usize),
                            case: case.clone(),
                            expected: format!("{}", expect as usize),
                            observed: format!("{n}\n{src}"),
                        });
                    }
                }
            }
        }
    }
    if large {
        return out;
    }
    // LessThan inputs range-checked by Num2Bits(k).
    for (curve, p) in &primes {
        let src = less_than_program(arg);
        let safe = match constant {
            // every k-bit value is non-negative: 2^k - 1 <= p/2
            Some(k) => (BigUint::one() << (k as usize)) - BigUint::one() <= (p >> 1usize),
            None => false,
        };
        match count_reports(&src, &curve_of(curve), &ids.less_than) {
            Ok(n) => {
                // One direction only ("counts as range-checked only if"): an unsafe size must
                // leave both inputs flagged; a safe size that is still flagged is not a violation.
                if !safe && n != 2 {
                    out.push(Violation {
                        signature: format!("less-than/missing/{curve}"),
                        what: format!("LessThan inputs range-checked by Num2Bits({arg}) under {curve}: {n} findings although a {arg}-bit value can exceed p/2"),
                        case: case.clone(),
                        expected: "2 findings (2^k - 1 <= p/2 is false)".to_string(),
                        observed: format!("{n}\n{src}"),
                    });
                }
            }
            Err(e) => out.push(Violation { signature: format!("MACHINERY-{e}"), what: "not analysed".into(), case: case.clone(), expected: "analysed".into(), observed: src }),
        }
        if !safe {
            for shape in 0..LESS_THAN_SHAPES {
                let (src, must) = less_than_shape(shape, arg);
                match count_reports(&src, &curve_of(curve), &ids.less_than) {
                    Ok(n) if n < must => out.push(Violation {
                        signature: format!("less-than/missing/shape-{shape}/{curve}"),
                        what: format!("wiring shape {shape}: {must} LessThan input(s) are range-checked only by Num2Bits({arg}) under {curve}, but {n} findings are given"),
                        case: case.clone(),
                        expected: format!("at least {must} findings"),
                        observed: format!("{n}\n{src}"),
                    }),
                    Ok(_) => {
                        SHAPES_JUDGED.fetch_add(1, std::sync::atomic::Ordering::Relaxed);
                    }
                    // a shape the lifter rejects is not judged
                    Err(_) => {
                        SHAPES_NOT_LIFTED.fetch_add(1, std::sync::atomic::Ordering::Relaxed);
                    }
                }
            }
        }
    }
    out
}

pub fn spellings() -> Vec<String> {
    let mut set = BTreeSet::new();
    for name in ["BN254", "BLS12_381", "GOLDILOCKS"] {
        // every upper/lower-case spelling
        let letters: Vec<usize> = name.char_indices().filter(|(_, c)| c.is_ascii_alphabetic()).map(|(i, _)| i).collect();
        for mask in 0..(1u32 << letters.len()) {
            let mut chars: Vec<char> = name.chars().collect();
            for (b, pos) in letters.iter().enumerate() {
                if mask >> b & 1 == 1 {
                    chars[*pos] = chars[*pos].to_ascii_lowercase();
                }
            }
            set.insert(chars.iter().collect::<String>());
        }
        // every string one edit away over [a-z0-9_]
        let alphabet: Vec<char> = "abcdefghijklmnopqrstuvwxyz0123456789_".chars().collect();
        let base: Vec<char> = name.to_lowercase().chars().collect();
        for i in 0..=base.len() {
            for c in &alphabet {
                let mut v = base.clone();
                v.insert(i, *c);
                set.insert(v.iter().collect());
            }
            if i < base.len() {
                let mut v = base.clone();
                v.remove(i);
                set.insert(v.iter().collect());
                for c in &alphabet {
                    let mut v = base.clone();
                    v[i] = *c;
                    set.insert(v.iter().collect());
                }
            }
        }
    }
    set.insert(String::new());
    set.insert("bn128".into());
    set.insert("BLS12-381".into());
    set.insert(" BN254".into());
    set.into_iter().collect()
}

pub fn run(run: &Run) {
    run.set_rule(
        "table parsed from doc/analysis_passes.md (26 names x 2 curves, Circomlib spelling) + ~9 near-miss \
         names each, x 3 instantiation forms x 3 curves; Num2Bits/Bits2Num/LessThan sizes: every \
         constant 0..300 and non-constant forms {n, n+1, k (local), j (assigned in a nested if), 2*127, 254-1, 127+127} x 3 curves, five sizes again behind 1500 constant definitions, every size also as an anonymous component at the top level and inside a loop body, the LessThan \
         clause in 7 wirings (component array, separate names, same name in sibling scopes both ways, shadowing \
         in a nested block, declared first and wired later, two-dimensional array); \
         every upper/lower-case spelling of the three curve names and every string one edit away \
         through Curve::from_str, 40 of them through the binary; non-trivial = case on which the \
         expected answer is `flagged`/`accepted` or a boundary value",
    );
    let table = match doc_table() {
        Ok(t) => t,
        Err(e) => {
            run.machinery_error(&format!("cannot parse the documented table: {e}"));
            return;
        }
    };
    run.set_extra("table_rows", json!(table.len()));
    let ids = match learn_ids() {
        Ok(ids) => ids,
        Err(e) => {
            // A positive control without finding is itself a violation of the table / threshold.
            run.violation(Violation {
                signature: "control-without-finding".into(),
                what: format!("positive control produced no finding: {e}"),
                case: json!({"kind": "control"}),
                expected: "Sign under Goldilocks, Num2Bits(254) under BN254 and an unchecked LessThan are flagged".into(),
                observed: e,
            });
            run.eval(1);
            return;
        }
    };
    run.set_extra("finding_ids", json!({"bn254_specific": ids.bn254_specific, "nonstrict": ids.nonstrict, "less_than": ids.less_than}));
    // Names.
    let mut names: Vec<(String, (bool, bool))> = Vec::new();
    let listed: BTreeSet<String> = table.iter().map(|r| r.0.clone()).collect();
    for (name, g, b) in &table {
        names.push((name.clone(), (*g, *b)));
        for miss in near_misses(name) {
            if !listed.contains(&miss) {
                names.push((miss, (false, false)));
            }
        }
    }
    names.push(("Num2Bits".into(), (false, false)));
    names.push(("LessThan".into(), (false, false)));
    names.sort();
    names.dedup();
    run.set_extra("names", json!(names.len()));
    par_each(&names, |i, (name, expected)| {
        let case = json!({"kind": "name", "name": name});
        run.watch(&case);
        run.eval(9);
        if expected.0 || expected.1 {
            run.nontrivial(1);
        }
        let vs = check_name(name, *expected, &ids, &case);
        if i % 23 == 0 {
            run.outcome(&format!("name:marked={}", expected.0 || expected.1));
            if run.want_sample() {
                run.sample(json!({"name": name, "goldilocks": expected.0, "bls12_381": expected.1}));
            }
        }
        run.violations(vs);
    });
    // Sizes.
    let mut sizes: Vec<(String, Option<u64>)> = (0..=300u64).map(|n| (n.to_string(), Some(n))).collect();
    sizes.extend([
        ("n".to_string(), None),
        ("n + 1".to_string(), None),
        ("k".to_string(), Some(100)),
        ("2 * 127".to_string(), Some(254)),
        ("254 - 1".to_string(), Some(253)),
        ("127 + 127".to_string(), Some(254)),
        ("63 + k".to_string(), Some(163)),
        ("n * 0".to_string(), None),
        // assigned in an `if` nested in an `if`: not a constant at the instantiation
        ("j".to_string(), None),
        ("j + 1".to_string(), None),
    ]);
    par_each(&sizes, |_, (arg, constant)| {
        let case = json!({"kind": "size", "arg": arg, "constant": constant});
        run.watch(&case);
        run.eval(9);
        if matches!(constant, Some(n) if (60..=64).contains(n) || (250..=256).contains(n)) {
            run.nontrivial(1);
        }
        let vs = check_size(arg, *constant, &ids, &case);
        run.outcome(&format!("size:violations={}", vs.len().min(2)));
        run.violations(vs);
    });
    // The same size test at the end of a large template (1500 constant definitions in front).
    let large: Vec<(String, Option<u64>)> = vec![("8".into(), Some(8)), ("253".into(), Some(253)), ("254".into(), Some(254)), ("k".into(), Some(100)), ("n".into(), None)];
    par_each(&large, |_, (arg, constant)| {
        let case = json!({"kind": "size-large", "arg": arg, "constant": constant});
        run.watch(&case);
        run.eval(6);
        run.nontrivial(1);
        run.violations(check_size_in(arg, *constant, &ids, &case, true));
    });
    let _ = std::fs::remove_dir_all(std::path::PathBuf::from(crate::infra::VERIF_DIR).join(".work").join(format!("c11-anon-{}", std::process::id())));
    // Spellings.
    run.set_extra("less_than_wiring_shapes_judged", json!(SHAPES_JUDGED.load(std::sync::atomic::Ordering::Relaxed)));
    run.set_extra("less_than_wiring_shapes_not_lifted", json!(SHAPES_NOT_LIFTED.load(std::sync::atomic::Ordering::Relaxed)));
    let all = spellings();
    run.set_extra("curve_spellings", json!(all.len()));
    for s in &all {
        run.eval(1);
        let accepted = Curve::from_str(s).is_ok();
        let expect = ["BN254", "BLS12_381", "GOLDILOCKS"].contains(&s.to_uppercase().as_str());
        if expect {
            run.nontrivial(1);
        }
        if accepted != expect {
            run.violation(Violation {
                signature: format!("spelling/{}", if expect { "rejected" } else { "accepted" }),
                what: format!("curve name `{s}` is {} but should be {}", if accepted { "accepted" } else { "rejected" }, if expect { "accepted" } else { "rejected" }),
                case: json!({"kind": "spelling", "name": s}),
                expected: format!("{expect}"),
                observed: format!("{accepted}"),
            });
        }
    }
    // A slice through the binary.
    let dir = work_dir("c11");
    std::fs::write(dir.join("s.circom"), instantiation(0, "Sign")).expect("write");
    let slice: Vec<&String> = all.iter().step_by((all.len() / 40).max(1)).collect();
    for s in slice {
        let r = run_bin(&BinOpts {
            args: vec!["s.circom".into(), "--curve".into(), s.to_string(), "--verbose".into()],
            cwd: &dir,
            hash_seed: Some(1),
            timeout: Duration::from_secs(30),
            sarif_file: None,
            mem_limit: None,
        });
        run.eval(1);
        let expect = ["BN254", "BLS12_381", "GOLDILOCKS"].contains(&s.to_uppercase().as_str());
        let accepted = matches!(r.exit, Some(0) | Some(1)) && r.summary.is_some();
        let flagged = r.diagnostics.iter().any(|d| d.id.as_deref() == Some(ids.bn254_specific.as_str()));
        let flag_expected = expect && s.to_uppercase() != "BN254";
        if accepted != expect || (accepted && flagged != flag_expected) {
            run.violation(Violation {
                signature: "spelling/binary".into(),
                what: format!("--curve {s}: accepted={accepted} (expected {expect}), Sign flagged={flagged} (expected {flag_expected})"),
                case: json!({"kind": "spelling-binary", "name": s}),
                expected: format!("accepted={expect}, flagged={flag_expected}"),
                observed: format!("exit {:?}\n{}", r.exit, crate::infra::truncate(&r.stdout, 300)),
            });
        }
    }
    let _ = std::fs::remove_dir_all(&dir);
}

pub fn replay(case: &Value) -> Vec<Violation> {
    let ids = match learn_ids() {
        Ok(ids) => ids,
        Err(e) => {
            return vec![Violation { signature: "control-without-finding".into(), what: e.clone(), case: case.clone(), expected: "controls flagged".into(), observed: e }]
        }
    };
    match case["kind"].as_str() {
        Some("name") => {
            let name = case["name"].as_str().unwrap_or("Sign");
            let expected = doc_table().ok().and_then(|t| t.into_iter().find(|r| r.0 == name)).map(|r| (r.1, r.2)).unwrap_or((false, false));
            check_name(name, expected, &ids, case)
        }
        Some("size") => check_size(case["arg"].as_str().unwrap_or("0"), case["constant"].as_u64(), &ids, case),
        Some("size-large") => check_size_in(case["arg"].as_str().unwrap_or("0"), case["constant"].as_u64(), &ids, case, true),
        Some("spelling") => {
            let s = case["name"].as_str().unwrap_or("");
            let accepted = Curve::from_str(s).is_ok();
            let expect = ["BN254", "BLS12_381", "GOLDILOCKS"].contains(&s.to_uppercase().as_str());
            if accepted != expect {
                vec![Violation { signature: "spelling".into(), what: format!("curve name `{s}`"), case: case.clone(), expected: format!("{expect}"), observed: format!("{accepted}") }]
            } else {
                Vec::new()
            }
        }
        _ => Vec::new(),
    }
}

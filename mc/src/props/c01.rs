//! C01 — totality: no input makes the analyzer panic, abort or hang.
//! (i) construct lattice: statement form x expression slot x expression form x context, driven
//!     in-process through the same public calls `main` makes (real file -> parse_files ->
//!     analyze), panics captured, hangs caught by the watchdog;
//! (ii) byte strings up to a length bound over a 30-symbol alphabet in three embeddings, and all
//!     1- and 2-byte files over the full byte alphabet;
//! (iii) scaling ladder for recursion-prone constructs through the binary (deadline + memory limit);
//! (iv) options product through the binary.
use crate::infra::{catch, par_each, par_for, work_dir, Run, Tier, Violation};
use crate::sut::bin::{run_bin, BinOpts};
use crate::sut::runner;
use program_structure::constants::Curve;
use serde_json::{json, Value};
use std::path::{Path, PathBuf};
use std::time::Duration;

pub const P_BN254: &str = "21888242871839275222246405745257275088548364400416034343698204186575808495617";

pub fn atoms() -> Vec<String> {
    ["x", "s", "7", "a[0]", "c.out"].iter().map(|s| s.to_string()).collect()
}

pub const INFIX: [&str; 20] = ["*", "/", "+", "-", "**", "\\", "%", "<<", ">>", "<=", ">=", "<", ">", "==", "!=", "||", "&&", "|", "&", "^"];

/// Expression forms of depth 1 over the given operands.
pub fn expr_forms(ops: &[String], literals: bool) -> Vec<String> {
    let a = &ops[0];
    let b = &ops[1 % ops.len()];
    let c = &ops[2 % ops.len()];
    let mut v: Vec<String> = ops.to_vec();
    for op in INFIX {
        v.push(format!("{a} {op} {b}"));
        v.push(format!("{b} {op} {c}"));
    }
    for op in ["-", "!", "~"] {
        v.push(format!("{op}{a}"));
        v.push(format!("{op}{c}"));
    }
    v.push(format!("{a} ? {b} : {c}"));
    v.push(format!("{c} ? {a} : {b}"));
    v.push(format!("f({a})"));
    v.push("f()".to_string());
    v.push(format!("f({a}, {b})"));
    v.push(format!("[{a}, {b}]"));
    v.push(format!("a[{a}]"));
    v.push(format!("a[{c}][{b}]"));
    v.push(format!("c.out[{a}]"));
    v.push(format!("cs[{a}].out"));
    v.push(format!("({a}, {b})"));
    v.push(format!("({a}, _, {c})"));
    v.push(format!("T()({a})"));
    v.push(format!("T({b})({a}, {c})"));
    v.push(format!("T()(in <== {a})"));
    v.push(format!("T()(in <-- {a}, in2 <== {b})"));
    v.push(format!("T()(nosuch <== {a})"));
    v.push(format!("parallel T()({a})"));
    v.push(format!("parallel f({a})"));
    v.push("_".to_string());
    v.push(format!("({a})"));
    if literals {
        for lit in ["0", "1", "254", "0x", "0x0", "0xFF", "0xfFfF", "100000000000", P_BN254] {
            v.push(lit.to_string());
        }
        v.push(format!("{P_BN254}0"));
        v.push("115792089237316195423570985008687907853269984665640564039457584007913129639936".to_string());
        v.push("7 % 0".to_string());
        v.push("7 \\ 0".to_string());
        v.push("7 / 0".to_string());
        v.push("1 << 100000000000".to_string());
        v.push("1 >> 100000000000".to_string());
        v.push(format!("1 << {P_BN254}"));
        // negated literals at and beyond the field size, as operands and exponents
        for big in [P_BN254.to_string(), format!("{P_BN254}0"), "0x10000000000000000".to_string(), "1".to_string()] {
            v.push(format!("-{big}"));
            v.push(format!("5 ** (-{big})"));
            v.push(format!("1 << (-{big})"));
            v.push(format!("7 % (-{big})"));
            v.push(format!("7 \\ (-{big})"));
            v.push(format!("~(-{big})"));
            v.push(format!("(-{big}) >> 1"));
        }
        v.push("0 ** 0".to_string());
        v.push("2 ** 100000000000".to_string());
    }
    v
}

/// Outer expression forms with an inner slot `{e}`.
pub const WRAPPERS: [&str; 12] = [
    "parallel ({e})",
    "parallel (1 + {e})",
    "parallel f({e})",
    "-({e})",
    "1 + ({e})",
    "f({e})",
    "a[{e}]",
    "T()({e})",
    "({e}) ? 1 : 2",
    "x ? ({e}) : 2",
    "[{e}, 1]",
    "({e}, 1)",
];

/// Statement forms with an expression slot `{e}`.
pub const STMT_FORMS: [&str; 63] = [
    "x = {e};",
    "x += {e};",
    "x -= {e};",
    "x *= {e};",
    "x **= {e};",
    "x /= {e};",
    "x \\= {e};",
    "x %= {e};",
    "x <<= {e};",
    "x >>= {e};",
    "x &= {e};",
    "x |= {e};",
    "x ^= {e};",
    "a[{e}] = 1;",
    "a[0] = {e};",
    "a[{e}]++;",
    "s <-- {e};",
    "s <== {e};",
    "{e} --> s;",
    "{e} ==> s;",
    "{e} === s;",
    "s === {e};",
    "sa[{e}] <-- 1;",
    "sa[0] <== {e};",
    "c.in <== {e};",
    "cs[{e}].in <-- 1;",
    "var v = {e};",
    "var v[{e}];",
    "var v[2] = {e};",
    "var v = 1, w = {e};",
    "signal t <== {e};",
    "signal t <-- {e};",
    "signal t[{e}];",
    "component k = {e};",
    "component k[{e}];",
    "var (p, q) = {e};",
    "signal (p, q) <== {e};",
    "component (p, q) = {e};",
    "(x, y) = {e};",
    "(s, _) <== {e};",
    "({e}, x) = (1, 2);",
    "log({e});",
    "log(\"msg\", {e}, \"end\");",
    "assert({e});",
    "if ({e}) { x = 1; } else { x = 2; }",
    "if (x) s <-- {e};",
    "while ({e}) { x = 1; }",
    "while (x) x = {e};",
    "for (var i = 0; {e}; i++) { x = 1; }",
    "for (var i = {e}; i < 2; i += {e}) { x = i; }",
    "for (x = {e}; x < 2; x++) x = {e};",
    "{e};",
    "if (n > 1) { s <-- {e}; } else { s <-- 7; }",
    "zz = {e};\n    zz = 8;",
    "if (n > 1) { sa[0] <-- {e}; } else { sa[0] <-- 7; }\n    s <== sa[0];",
    // arbitrary expressions where an assignable is expected
    "{e} <== s;",
    "{e} <-- 1;",
    "{e} = 1;",
    "s ==> {e};",
    "1 --> {e};",
    "{e} += 1;",
    "{e}++;",
    "[{e}, x] <== [1, 2];",
];

pub const CONTEXTS: [&str; 5] = ["template", "template custom", "template parallel", "function", "function-return"];

pub fn program(ctx: usize, stmt: &str, expr: &str) -> String {
    let body = stmt.replace("{e}", expr);
    let support = "template T() {\n    signal input in;\n    signal input in2;\n    signal output out;\n    out <== in + in2;\n}\nfunction f(u) {\n    return u + 1;\n}\n";
    let decls = "    var x = 1;\n    var y = 2;\n    var a[2] = [1, 2];\n";
    match ctx {
        0 | 1 | 2 => {
            let header = ["template", "template custom", "template parallel"][ctx];
            let pragma = if ctx == 1 { "pragma circom 2.1.0;\npragma custom_templates;\n" } else { "pragma circom 2.1.0;\n" };
            format!(
                "{pragma}{support}{header} M(n) {{\n    signal input in;\n    signal output s;\n    signal sa[2];\n    component c = T();\n    component cs[2];\n{decls}    {body}\n}}\n"
            )
        }
        3 => format!("pragma circom 2.1.0;\n{support}function M(n) {{\n{decls}    var s = 3;\n    {body}\n    return x;\n}}\n"),
        _ => format!("pragma circom 2.1.0;\n{support}function M(n) {{\n{decls}    var s = 3;\n    return {expr};\n}}\n"),
    }
}

/// Runs one source text through the public call sequence of `main`, in-process.
pub fn drive(dir: &Path, name: &str, bytes: &[u8], curve: Curve) -> Result<usize, crate::infra::PanicInfo> {
    let path = dir.join(name);
    std::fs::write(&path, bytes).expect("write input");
    let files = vec![path];
    let mut loaded = runner::load(&files, &[], curve)?;
    let collected = runner::analyze_all(&mut loaded)?;
    // Rendering is part of what the user runs: convert every report to a diagnostic.
    let n = collected.reports.len();
    catch(|| {
        for r in &collected.reports {
            let _ = r.to_diagnostic(true);
        }
    })?;
    Ok(n)
}

fn thread_dir(root: &Path) -> PathBuf {
    let id = format!("{:?}", std::thread::current().id()).replace(|c: char| !c.is_ascii_alphanumeric(), "");
    let dir = root.join(id);
    let _ = std::fs::create_dir_all(&dir);
    dir
}

fn panic_violation(p: crate::infra::PanicInfo, case: &Value, src: &str) -> Violation {
    Violation {
        signature: p.signature(),
        what: format!("the analyzer panics: {}", crate::infra::truncate(&p.message, 120)),
        case: case.clone(),
        expected: "no panic; exit status 0 or 1 after the summary line".into(),
        observed: format!("panic at {}:{}: {}\n{}", p.file, p.line, p.message, crate::infra::truncate(src, 1500)),
    }
}

pub const SYMBOLS: [&str; 30] = [
    "a", "1", "x", "_", "$", "\"", "/", "*", "\n", " ", "(", ")", "{", "}", "[", "]", ";", ",", ".", "=", "<", ">", "-", "!", "~", "\\", "é", "0x", "+", "?",
];

pub fn symbol_string(mut code: u64, len: usize) -> String {
    let mut s = String::new();
    for _ in 0..len {
        s.push_str(SYMBOLS[(code % 30) as usize]);
        code /= 30;
    }
    s
}

pub fn embed(embedding: usize, s: &str) -> String {
    match embedding {
        0 => s.to_string(),
        1 => format!("template M() {{\n    signal input in;\n    var x = 1;\n{s}\n}}\n"),
        _ => format!("function M(n) {{\n    var x = 1;\n    x = {s};\n    return x;\n}}\n"),
    }
}

pub fn ladder_source(kind: &str, n: usize) -> String {
    let wrap = |body: String| format!("pragma circom 2.1.0;\ntemplate M(n) {{\n    signal input in;\n    signal output out;\n    var x = 1;\n{body}\n}}\n");
    match kind {
        "parentheses" => wrap(format!("    x = {}1{};", "(".repeat(n), ")".repeat(n))),
        // (prefix operators do not chain without parentheses in the grammar)
        "unary-chain" => wrap(format!("    x = {}1{};", "-(".repeat(n), ")".repeat(n))),
        "operator-chain" => wrap(format!("    x = 1{};", " + 1".repeat(n))),
        "nested-blocks" => wrap(format!("    {}x = 2;{}", "{ ".repeat(n), " }".repeat(n))),
        "nested-ifs" => wrap(format!("    {}x = 2;{}", "if (n > 1) { ".repeat(n), " }".repeat(n))),
        "nested-loops" => wrap(format!("    {}x = 2;{}", "while (x < 1) { ".repeat(n), " }".repeat(n))),
        "nested-index" => wrap(format!("    x = {}0{};", "in[".repeat(n), "]".repeat(n))),
        "long-tuple" => wrap(format!("    ({}) = ({});", vec!["x"; n.max(2)].join(", "), vec!["1"; n.max(2)].join(", "))),
        "statement-list" => wrap("    x = x + 1;\n".repeat(n)),
        "else-if-chain" => wrap(format!("    if (n == 0) {{ x = 0; }}{}", (1..n).map(|i| format!(" else if (n == {i}) {{ x = {i}; }}")).collect::<String>())),
        // (the ternary operator does not nest without parentheses in the grammar)
        "ternary-chain" => wrap(format!("    x = {}0{};", "n ? 1 : (".repeat(n), ")".repeat(n))),
        "many-definitions" => {
            let mut s = String::from("pragma circom 2.1.0;\n");
            for i in 0..n {
                s.push_str(&format!("template D{i}() {{\n    signal input in;\n    signal output out;\n    out <== in;\n}}\n"));
            }
            s
        }
        _ => wrap(format!("    x = {};", "1".repeat(n))),
    }
}

pub const LADDERS: [&str; 13] = [
    "parentheses", "unary-chain", "operator-chain", "nested-blocks", "nested-ifs", "nested-loops", "nested-index", "long-tuple",
    "statement-list", "else-if-chain", "ternary-chain", "many-definitions", "long-literal",
];

pub fn check_ladder(kind: &str, n: usize, dir: &Path, case: &Value) -> Vec<Violation> {
    let mut out = Vec::new();
    let src = ladder_source(kind, n);
    if src.len() > 70_000 {
        return out;
    }
    std::fs::write(dir.join("l.circom"), &src).expect("write");
    // Deep nesting at the quick tier's extra size runs with a 128 KiB main-thread stack: all
    // recursive work belongs on the tool's own large-stack thread.
    let small_stack = if n == 6000 { Some(128) } else { None };
    let run = crate::sut::bin::run_bin_stack(&BinOpts {
        args: vec!["l.circom".into(), "--level".into(), "info".into()],
        cwd: dir,
        hash_seed: Some(1),
        timeout: Duration::from_secs(45),
        sarif_file: None,
        mem_limit: Some(4 << 30),
    }, small_stack);
    let ok = !run.timed_out && run.killed_by_signal.is_none() && !run.panicked() && matches!(run.exit, Some(0) | Some(1)) && run.summary.is_some();
    if !ok {
        // Time-outs and kills under the memory limit are one class: which of the two limits is
        // hit first depends on the machine.
        let class = if run.timed_out || run.killed_by_signal.is_some() {
            "does-not-complete".to_string()
        } else if run.panicked() {
            run.panic_signature().unwrap_or_else(|| "panic".into())
        } else {
            format!("exit-{:?}-summary-{}", run.exit, run.summary.is_some())
        };
        out.push(Violation {
            signature: format!("scaling/{kind}/{class}"),
            what: format!("{kind} of size {n} ({} bytes of source): the binary does not end normally ({class}) within 45 s / 4 GiB", src.len()),
            case: case.clone(),
            expected: "exit status 0 or 1 after the summary line".into(),
            observed: format!("exit {:?} signal {:?} timed out {} wall {} ms\nstderr: {}", run.exit, run.killed_by_signal, run.timed_out, run.wall_ms, crate::infra::truncate(&run.stderr, 300)),
        });
    }
    out
}

pub const SCENARIOS: [&str; 12] = [
    "self-include", "two-cycle", "three-cycle", "library-file-cycle", "library-dir-cycle", "diamond-through-library-file", "missing-include",
    "include-directory", "file-named-twice", "directory-named", "library-file-named-twice", "deep-include-chain",
];

fn tpl(name: &str) -> String {
    format!("template {name}() {{\n    signal input in;\n    signal output out;\n    out <== in;\n}}\n")
}

/// Include path strings x library configurations (totality only).
pub const INCLUDE_PATHS: [&str; 16] = [
    "x.circom", "übersicht.circom", "é", "漢.circom", "", ".", "..", "./x.circom", "../a.circom", "x", "/nonexistent/abs.circom", "la/x.circom", " x.circom", "x.circom ", "é/x.circom", "x.circom/é",
];
pub const LIBRARY_CONFIGS: usize = 5;

pub fn check_include_path(path_index: usize, lib: usize, dir: &Path, case: &Value) -> Vec<Violation> {
    let _ = std::fs::remove_dir_all(dir);
    std::fs::create_dir_all(dir.join("la")).expect("mkdir");
    let inc = INCLUDE_PATHS[path_index % INCLUDE_PATHS.len()];
    let head = "pragma circom 2.1.0;\n";
    std::fs::write(dir.join("a.circom"), format!("{head}include \"{inc}\";\n{}", tpl("A"))).expect("write");
    // The included file exists in the library directory when its name can be a file name.
    let plain = inc.trim();
    if !plain.is_empty() && !plain.contains('/') && plain != "." && plain != ".." {
        let _ = std::fs::write(dir.join("la").join(plain), format!("{head}{}", tpl("X")));
    }
    let _ = std::fs::write(dir.join("la/x.circom"), format!("{head}{}", tpl("X")));
    let mut args: Vec<String> = vec!["a.circom".into()];
    match lib % LIBRARY_CONFIGS {
        0 => {}
        1 => args.extend(["-L".into(), "la".into()]),
        2 => args.extend(["-L".into(), "la/x.circom".into()]),
        3 => args.extend(["-L".into(), "nosuchdir".into()]),
        _ => args.extend(["-L".into(), "la".into(), "-L".into(), "la/x.circom".into(), "-L".into(), ".".into()]),
    }
    let run = run_bin(&BinOpts { args, cwd: dir, hash_seed: Some(1), timeout: Duration::from_secs(20), sarif_file: None, mem_limit: Some(4 << 30) });
    let ok = !run.timed_out && run.killed_by_signal.is_none() && !run.panicked() && matches!(run.exit, Some(0) | Some(1)) && run.summary.is_some();
    if ok {
        return Vec::new();
    }
    let class = if run.timed_out { "does-not-complete".to_string() } else { run.panic_signature().unwrap_or_else(|| format!("exit-{:?}", run.exit)) };
    vec![Violation {
        signature: format!("include-path/{class}"),
        what: format!("include \"{inc}\" with library configuration {lib}: the binary does not end normally ({class})"),
        case: case.clone(),
        expected: "exit status 0 or 1 after the summary line".into(),
        observed: format!("exit {:?} signal {:?} timed out {}\nstderr: {}", run.exit, run.killed_by_signal, run.timed_out, crate::infra::truncate(&run.stderr, 300)),
    }]
}

pub fn check_scenario(name: &str, dir: &Path, case: &Value) -> Vec<Violation> {
    let _ = std::fs::remove_dir_all(dir);
    std::fs::create_dir_all(dir.join("la")).expect("mkdir");
    std::fs::create_dir_all(dir.join("lb")).expect("mkdir");
    let w = |f: &str, t: String| std::fs::write(dir.join(f), t).expect("write");
    let head = "pragma circom 2.1.0;\n";
    let mut args: Vec<String> = vec!["a.circom".into()];
    match name {
        "self-include" => w("a.circom", format!("{head}include \"a.circom\";\n{}", tpl("A"))),
        "two-cycle" => {
            w("a.circom", format!("{head}include \"b.circom\";\n{}", tpl("A")));
            w("b.circom", format!("{head}include \"a.circom\";\n{}", tpl("B")));
        }
        "three-cycle" => {
            w("a.circom", format!("{head}include \"b.circom\";\n{}", tpl("A")));
            w("b.circom", format!("{head}include \"c.circom\";\n{}", tpl("B")));
            w("c.circom", format!("{head}include \"./a.circom\";\n{}", tpl("C")));
        }
        "library-file-cycle" => {
            w("a.circom", format!("{head}include \"x.circom\";\n{}", tpl("A")));
            w("la/x.circom", format!("{head}include \"y.circom\";\n{}", tpl("X")));
            w("lb/y.circom", format!("{head}include \"x.circom\";\n{}", tpl("Y")));
            args.extend(["-L".into(), "la/x.circom".into(), "-L".into(), "lb/y.circom".into()]);
        }
        "library-dir-cycle" => {
            w("a.circom", format!("{head}include \"x.circom\";\n{}", tpl("A")));
            w("la/x.circom", format!("{head}include \"y.circom\";\n{}", tpl("X")));
            w("lb/y.circom", format!("{head}include \"x.circom\";\n{}", tpl("Y")));
            args.extend(["-L".into(), "la".into(), "-L".into(), "lb".into()]);
        }
        "diamond-through-library-file" => {
            w("a.circom", format!("{head}include \"b.circom\";\ninclude \"c.circom\";\n{}", tpl("A")));
            w("b.circom", format!("{head}include \"x.circom\";\n{}", tpl("B")));
            w("c.circom", format!("{head}include \"x.circom\";\n{}", tpl("C")));
            w("la/x.circom", format!("{head}{}", tpl("X")));
            args.extend(["-L".into(), "la/x.circom".into()]);
        }
        "missing-include" => w("a.circom", format!("{head}include \"nowhere.circom\";\n{}", tpl("A"))),
        "include-directory" => w("a.circom", format!("{head}include \"la\";\n{}", tpl("A"))),
        "file-named-twice" => {
            w("a.circom", format!("{head}{}", tpl("A")));
            args.push("./a.circom".into());
        }
        "directory-named" => {
            w("a.circom", format!("{head}{}", tpl("A")));
            w("la/x.circom", format!("{head}{}", tpl("X")));
            args = vec![".".into()];
        }
        "library-file-named-twice" => {
            w("a.circom", format!("{head}include \"x.circom\";\n{}", tpl("A")));
            w("la/x.circom", format!("{head}{}", tpl("X")));
            args.extend(["la/x.circom".into(), "-L".into(), "la/x.circom".into(), "-L".into(), "la".into()]);
        }
        _ => {
            let mut prev = "a".to_string();
            for i in 0..60 {
                let next = format!("f{i}");
                w(&format!("{prev}.circom"), format!("{head}include \"{next}.circom\";\n{}", tpl(&format!("T{prev}"))));
                prev = next;
            }
            w(&format!("{prev}.circom"), format!("{head}{}", tpl("Last")));
        }
    }
    let run = run_bin(&BinOpts { args: args.clone(), cwd: dir, hash_seed: Some(1), timeout: Duration::from_secs(20), sarif_file: None, mem_limit: Some(4 << 30) });
    let ok = !run.timed_out && run.killed_by_signal.is_none() && !run.panicked() && matches!(run.exit, Some(0) | Some(1)) && run.summary.is_some();
    if ok {
        return Vec::new();
    }
    let class = if run.timed_out || run.killed_by_signal.is_some() {
        "does-not-complete".to_string()
    } else {
        run.panic_signature().unwrap_or_else(|| format!("exit-{:?}", run.exit))
    };
    vec![Violation {
        signature: format!("scenario/{name}/{class}"),
        what: format!("project scenario {name} ({args:?}): the binary does not end normally ({class})"),
        case: case.clone(),
        expected: "exit status 0 or 1 after the summary line".into(),
        observed: format!("exit {:?} signal {:?} timed out {}\n{}", run.exit, run.killed_by_signal, run.timed_out, crate::infra::truncate(&run.stderr, 300)),
    }]
}

pub const OPTION_CORPUS: [&str; 6] = [
    "pragma circom 2.0.0;\ntemplate A(n) {\n    signal input in;\n    signal output out;\n    var x = 0;\n    if (n > 0) {\n        var x = 1;\n        out <-- in * x;\n    } else {\n        out <-- ~in;\n    }\n    component nb = Num2Bits(300);\n    nb.in <== in;\n}\ntemplate Num2Bits(n) {\n    signal input in;\n    signal output out[n];\n    for (var i = 0; i < n; i++) {\n        out[i] <-- (in >> i) & 1;\n    }\n}\ncomponent main = A(1);\n",
    "template B() {\n    signal input a;\n    signal output b;\n    b <-- a / 0;\n    b === a \\ 3;\n}\n",
    "pragma circom 2.1.4;\nfunction g(a, b) {\n    var r = a % b;\n    while (r > 0) {\n        r -= 1;\n    }\n    return r << 3;\n}\n",
    "pragma circom 2.0.0;\ntemplate C() {\n    signal input in;\n    signal output out;\n    component lt = LessThan(252);\n    lt.in[0] <== in;\n    lt.in[1] <== 5;\n    out <== lt.out;\n    component z = Sign();\n}\n",
    "this is not circom",
    "",
];

pub fn run(run: &Run) {
    run.set_rule(
        "(i) 63 statement forms (incl. arbitrary expressions in assignable position) x expression forms (operands, 20 infix, 3 prefix, ternary, calls, arrays, \
         accesses, tuples, anonymous components positional/named/unknown, parallel, `_`, literal \
         alphabet incl. 0x, p, 2^256, division by zero, huge shifts; 12 outer forms (parallel, prefix, infix, call, index, anonymous-component argument, ternary, array, tuple) over the sugar-bearing inner forms, over all inner forms and compound operands in thorough) x 5 contexts \
         (template, custom, parallel, function statement, function return); (ii) all strings <= 3 (4) \
         symbols over a 30-symbol alphabet in 3 embeddings, all 1- and 2-byte files; (iii) 13 \
         recursion-prone constructs at sizes 10..10^4 through the binary; (iv) corpus x 3 curves x 3 \
         levels x verbose x sarif through the binary; (v) 21 main-component forms x 4 public lists; \
         (vi) 12 multi-file scenarios (include cycles, library cycles, diamonds, files named twice) and 16 include path strings (non-ASCII, empty, dots, absolute, blanks) x 5 library configurations; (vii) ~1100 header forms (version pragmas with 1-4 components over a number alphabet reaching beyond 2^64 and 2^128, other pragmas, repeated pragmas); non-trivial = input accepted by the parser or \
         rejected with a diagnostic (anything but a crash is an evaluated case), counted distinct",
    );
    let root = work_dir("c01");
    // (i)
    let base_atoms = atoms();
    let mut exprs = expr_forms(&base_atoms, true);
    if run.tier == Tier::Thorough {
        // depth 2: every form again over compound operands
        let compound: Vec<String> = vec![
            "(x + 1)".into(), "f(x)".into(), "(s * s)".into(), "a[x]".into(), "(x ? 1 : 2)".into(), "T()(s)".into(), "(x, y)".into(), "[x, 1]".into(), "(~x)".into(),
        ];
        for rot in 0..compound.len() {
            let mut ops = compound.clone();
            ops.rotate_left(rot);
            exprs.extend(expr_forms(&ops[..3].to_vec(), false));
        }
    }
    // Outer operators over inner forms (depth 2 the other way round: the inner form is the
    // interesting one, the wrapper decides which desugaring / lifting path it arrives on).
    // Quick: inner forms that involve sugar (anonymous components, tuples, parallel, `_`);
    // thorough: every depth-1 form.
    let inner: Vec<String> = expr_forms(&base_atoms, false)
        .into_iter()
        .filter(|e| run.tier == Tier::Thorough || e.contains("T(") || e.starts_with('(') || e.contains("parallel") || e == "_")
        .collect();
    for w in WRAPPERS {
        for e in &inner {
            exprs.push(w.replace("{e}", e));
        }
    }
    exprs.sort();
    exprs.dedup();
    run.set_extra("expression_forms", json!(exprs.len()));
    run.set_extra("statement_forms", json!(STMT_FORMS.len()));
    let total = (exprs.len() * STMT_FORMS.len() * CONTEXTS.len()) as u64;
    run.set_extra("construct_programs", json!(total));
    par_for(total, 64, |idx| {
        let e = (idx as usize) % exprs.len();
        let s = (idx as usize / exprs.len()) % STMT_FORMS.len();
        let c = idx as usize / exprs.len() / STMT_FORMS.len();
        if c == 4 && s != 0 {
            return; // function-return has no statement dimension
        }
        let src = program(c, STMT_FORMS[s], &exprs[e]);
        let case = json!({"kind": "construct", "context": c, "stmt": STMT_FORMS[s], "expr": exprs[e]});
        run.watch(&case);
        let dir = thread_dir(&root);
        run.eval(1);
        match drive(&dir, "c.circom", src.as_bytes(), Curve::Bn254) {
            Ok(n) => {
                run.nontrivial(1);
                if idx % 1013 == 0 {
                    run.outcome(&format!("construct:reports={}", n.min(8)));
                    if run.want_sample() {
                        run.sample(json!({"program": src}));
                    }
                }
            }
            Err(p) => run.violation(panic_violation(p, &case, &src)),
        }
    });
    // (ii)
    let max_len = run.tier.pick(3usize, 4usize);
    for len in 0..=max_len {
        let n = 30u64.pow(len as u32);
        par_for(n * 3, 256, |idx| {
            let code = idx / 3;
            let embedding = (idx % 3) as usize;
            let src = embed(embedding, &symbol_string(code, len));
            run.watch_num("symbols", len as u64 * 10 + embedding as u64, code);
            let dir = thread_dir(&root);
            run.eval(1);
            match drive(&dir, "s.circom", src.as_bytes(), Curve::Bn254) {
                Ok(_) => run.nontrivial(1),
                Err(p) => {
                    let case = json!({"kind": "symbols", "n": len as u64 * 10 + embedding as u64, "code": code});
                    run.violation(panic_violation(p, &case, &src))
                }
            }
        });
    }
    let byte_files = run.tier.pick(256u64 + 4096, 256 + 65536);
    par_for(byte_files, 256, |idx| {
        let bytes: Vec<u8> = if idx < 256 {
            vec![idx as u8]
        } else if run.tier == Tier::Thorough {
            vec![((idx - 256) >> 8) as u8, ((idx - 256) & 255) as u8]
        } else {
            // quick: 16 x 256 two-byte files (first byte every 16th value)
            vec![(((idx - 256) >> 8) * 16 + 3) as u8, ((idx - 256) & 255) as u8]
        };
        run.watch_num("bytes", bytes.len() as u64, idx);
        let dir = thread_dir(&root);
        run.eval(1);
        match drive(&dir, "b.circom", &bytes, Curve::Bn254) {
            Ok(_) => run.nontrivial(1),
            Err(p) => {
                let case = json!({"kind": "bytes", "bytes": bytes});
                run.violation(panic_violation(p, &case, &String::from_utf8_lossy(&bytes)))
            }
        }
    });
    // (v) main component forms, in-process.
    let mains = [
        "T()", "T(1)", "T()(1)", "T()(1, 2)", "T()(in <== 1, in2 <== 2)", "parallel T()", "parallel T()(1, 2)", "f(1)", "(1, 2)", "1", "x",
        "M(1)", "Undefined()", "Undefined()(1)", "T()(T()(1, 2), 3)", "[T(), T()]", "T() + T()", "-T()", "T(f(1))", "T((1, 2))", "_",
    ];
    let publics = ["", "{public [in]} ", "{public [nosuch]} ", "{public [in, in]} "];
    let mut main_cases = Vec::new();
    for m in mains {
        for p in publics {
            main_cases.push((m, p));
        }
    }
    par_each(&main_cases, |_, (m, p)| {
        let src = format!("pragma circom 2.1.0;\ntemplate T() {{\n    signal input in;\n    signal input in2;\n    signal output out;\n    out <== in + in2;\n}}\nfunction f(u) {{\n    return u + 1;\n}}\ntemplate M(n) {{\n    signal input in;\n    signal output out;\n    out <== in * n;\n}}\ncomponent main {p}= {m};\n");
        let case = json!({"kind": "main", "main": m, "public": p});
        run.watch(&case);
        let dir = thread_dir(&root);
        run.eval(1);
        match drive(&dir, "m.circom", src.as_bytes(), Curve::Bn254) {
            Ok(_) => run.nontrivial(1),
            Err(p) => run.violation(panic_violation(p, &case, &src)),
        }
    });
    // (vii) header forms: every pragma line built from a number alphabet that includes values
    // beyond usize / u64, with 1-4 components, and the other pragmas, in every order.
    let numbers = ["0", "2", "1", "4", "00002", "99", "18446744073709551615", "18446744073709551616", "99999999999999999999999", "340282366920938463463374607431768211456"];
    let mut headers: Vec<String> = Vec::new();
    for a in numbers {
        headers.push(format!("pragma circom {a};"));
        for b in numbers {
            headers.push(format!("pragma circom {a}.{b};"));
            for c in numbers {
                headers.push(format!("pragma circom {a}.{b}.{c};"));
            }
        }
    }
    for extra in ["pragma circom 2.1.4.0;", "pragma circom 2.1.4\n", "pragma circom;", "pragma circom 2 . 1 . 4;", "pragma custom_templates;", "pragma custom_templates;\npragma circom 2.1.4;", "pragma circom 2.1.4;\npragma custom_templates;", "pragma circom 2.1.4;\npragma circom 2.0.0;", "pragma nosuch;", "pragma circom 2.1.4;\npragma custom_templates;\npragma custom_templates;", "pragma circom 0x2.1.4;", "pragma circom -2.1.4;"] {
        headers.push(extra.to_string());
    }
    // Definition headers: parameter lists with repeated names, no names, many names.
    for params in ["", "a", "a, a", "a, b, a", "a, b, c, d, e, f, g, h, i, j, k, l", "n, n, n", "in", "out, out"] {
        for kw in ["template T2", "template parallel T2", "function f2"] {
            let body = if kw.starts_with("function") { "return 1;" } else { "signal output o; o <== 1;" };
            headers.push(format!("pragma circom 2.1.0;\n{kw}({params}) {{ {body} }}"));
        }
    }
    run.set_extra("header_forms", json!(headers.len()));
    par_each(&headers, |_, h| {
        let src = format!("{h}\ntemplate T() {{\n    signal input in;\n    signal output out;\n    out <== in;\n}}\n");
        let case = json!({"kind": "header", "header": h});
        run.watch(&case);
        let dir = thread_dir(&root);
        run.eval(1);
        match drive(&dir, "h.circom", src.as_bytes(), Curve::Bn254) {
            Ok(_) => run.nontrivial(1),
            Err(p) => run.violation(panic_violation(p, &case, &src)),
        }
    });
    run.idle();
    // (vi) multi-file scenarios through the binary.
    par_each(&SCENARIOS, |i, name| {
        let case = json!({"kind": "scenario", "scenario": name});
        let dir = root.join(format!("scenario{i}"));
        run.eval(1);
        run.nontrivial(1);
        let vs = check_scenario(name, &dir, &case);
        run.outcome(&format!("scenario:{name}:{}", if vs.is_empty() { "ok" } else { "fails" }));
        run.violations(vs);
        let _ = std::fs::remove_dir_all(&dir);
    });
    // (vi, continued) include path strings x library configurations through the binary.
    let mut inc_cases: Vec<(usize, usize)> = Vec::new();
    for pi in 0..INCLUDE_PATHS.len() {
        for lib in 0..LIBRARY_CONFIGS {
            inc_cases.push((pi, lib));
        }
    }
    par_each(&inc_cases, |i, (pi, lib)| {
        let case = json!({"kind": "include-path", "path": pi, "lib": lib});
        let dir = root.join(format!("inc{i}"));
        run.eval(1);
        run.nontrivial(1);
        run.violations(check_include_path(*pi, *lib, &dir, &case));
        let _ = std::fs::remove_dir_all(&dir);
    });
    // (iii)
    let sizes: &[usize] = match run.tier {
        Tier::Quick => &[10, 100, 300],
        Tier::Thorough => &[10, 100, 1000, 3000, 10000],
    };
    let mut ladder: Vec<(&str, usize)> = Vec::new();
    for k in LADDERS {
        for n in sizes {
            ladder.push((k, *n));
        }
    }
    // Every construct of the ladder must be grammatical: at the smallest size the real parser
    // accepts it (a construct that is rejected at every size explores nothing).
    for k in LADDERS {
        let src = ladder_source(k, 10);
        let accepted = matches!(catch(|| parser::verif::parse_string(&src)), Ok(Some(_)));
        run.set_extra(&format!("ladder_{k}_accepted_by_parser"), json!(accepted));
        if !accepted {
            run.machinery_error(&format!("ladder construct `{k}` is not accepted by the parser at size 10: {}", crate::infra::truncate(&src, 200)));
        }
    }
    if run.tier == Tier::Quick {
        // Deep expression nesting is cheap for the tool (about a second at 6000 levels) and is
        // where a smaller stack shows: two constructs at that depth in the quick tier as well.
        ladder.push(("parentheses", 6000));
        ladder.push(("unary-chain", 6000));
    }
    par_each(&ladder, |i, (kind, n)| {
        let case = json!({"kind": "ladder", "construct": kind, "size": n});
        if run.hangs.load(std::sync::atomic::Ordering::Relaxed) >= 8 {
            run.cap("scaling ladder stopped after eight constructs did not complete");
            return;
        }
        let dir = root.join(format!("ladder{i}"));
        let _ = std::fs::create_dir_all(&dir);
        run.idle();
        run.eval(1);
        run.nontrivial(1);
        let vs = check_ladder(kind, *n, &dir, &case);
        run.outcome(&format!("ladder:{kind}:{}", if vs.is_empty() { "ok" } else { "fails" }));
        run.violations(vs);
    });
    // (iv)
    let mut option_runs: Vec<(usize, &str, &str, bool, bool)> = Vec::new();
    for (i, _) in OPTION_CORPUS.iter().enumerate() {
        for curve in ["BN254", "BLS12_381", "GOLDILOCKS", "bn254", "goldilocks", "ed25519"] {
            for level in ["info", "warning", "error", "INFO", "debug"] {
                for verbose in [false, true] {
                    for sarif in [false, true] {
                        option_runs.push((i, curve, level, verbose, sarif));
                    }
                }
            }
        }
    }
    run.set_extra("option_runs", json!(option_runs.len()));
    par_each(&option_runs, |k, (i, curve, level, verbose, sarif)| {
        let dir = root.join(format!("opt{k}"));
        let _ = std::fs::create_dir_all(&dir);
        std::fs::write(dir.join("o.circom"), OPTION_CORPUS[*i]).expect("write");
        let mut args: Vec<String> = vec!["o.circom".into(), "--curve".into(), curve.to_string(), "--level".into(), level.to_string()];
        if *verbose {
            args.push("-v".into());
        }
        let sarif_file = if *sarif { Some(dir.join("o.sarif")) } else { None };
        if let Some(f) = &sarif_file {
            args.push("--sarif-file".into());
            args.push(f.display().to_string());
        }
        let case = json!({"kind": "options", "corpus": i, "curve": curve, "level": level, "verbose": verbose, "sarif": sarif});
        run.idle();
        let r = run_bin(&BinOpts { args, cwd: &dir, hash_seed: Some(1), timeout: Duration::from_secs(60), sarif_file, mem_limit: None });
        run.eval(1);
        run.nontrivial(1);
        // Unsupported option values are rejected by the argument parser (exit status 2, usage on
        // stderr); that is not a crash. Supported option sets must end with 0/1 and a summary line.
        let supported = ["BN254", "BLS12_381", "GOLDILOCKS", "bn254", "goldilocks"].contains(curve) && ["info", "warning", "error", "INFO"].contains(level);
        let ok = if supported {
            !r.timed_out && r.killed_by_signal.is_none() && !r.panicked() && matches!(r.exit, Some(0) | Some(1)) && r.summary.is_some()
        } else {
            !r.timed_out && r.killed_by_signal.is_none() && !r.panicked() && r.exit == Some(2)
        };
        if !ok {
            run.violation(Violation {
                signature: format!("options/{}", r.panic_signature().unwrap_or_else(|| format!("exit={:?},summary={}", r.exit, r.summary.is_some()))),
                what: format!("option set curve={curve} level={level} verbose={verbose} sarif={sarif} on corpus {i}: the binary does not end as it should"),
                case,
                expected: if supported { "exit 0/1 and a summary line".into() } else { "rejected by the argument parser (exit 2)".into() },
                observed: format!("exit {:?} signal {:?} timeout {}\n{}\n{}", r.exit, r.killed_by_signal, r.timed_out, crate::infra::truncate(&r.stdout, 300), crate::infra::truncate(&r.stderr, 300)),
            });
        }
        let _ = std::fs::remove_dir_all(&dir);
    });
    let _ = std::fs::remove_dir_all(&root);
    run.assume("memory exhaustion is observed only as a kill under the 4 GiB address-space limit of the scaling ladder");
    run.assume("closed only up to the stated lengths / depths; the in-process driver performs the same public calls as main but renders diagnostics without the terminal writer");
}

pub fn replay(case: &Value) -> Vec<Violation> {
    let root = work_dir("c01-replay");
    let out = match case["kind"].as_str() {
        Some("construct") => {
            let src = program(case["context"].as_u64().unwrap_or(0) as usize, case["stmt"].as_str().unwrap_or("x = {e};"), case["expr"].as_str().unwrap_or("1"));
            match drive(&root, "c.circom", src.as_bytes(), Curve::Bn254) {
                Ok(_) => Vec::new(),
                Err(p) => vec![panic_violation(p, case, &src)],
            }
        }
        Some("symbols") => {
            let n = case["n"].as_u64().unwrap_or(0);
            let src = embed((n % 10) as usize, &symbol_string(case["code"].as_u64().unwrap_or(0), (n / 10) as usize));
            match drive(&root, "s.circom", src.as_bytes(), Curve::Bn254) {
                Ok(_) => Vec::new(),
                Err(p) => vec![panic_violation(p, case, &src)],
            }
        }
        Some("bytes") => {
            let bytes: Vec<u8> = case["bytes"].as_array().map(|a| a.iter().map(|v| v.as_u64().unwrap_or(0) as u8).collect()).unwrap_or_default();
            match drive(&root, "b.circom", &bytes, Curve::Bn254) {
                Ok(_) => Vec::new(),
                Err(p) => vec![panic_violation(p, case, &String::from_utf8_lossy(&bytes))],
            }
        }
        Some("header") => {
            let src = format!("{}\ntemplate T() {{\n    signal input in;\n    signal output out;\n    out <== in;\n}}\n", case["header"].as_str().unwrap_or(""));
            match drive(&root, "h.circom", src.as_bytes(), Curve::Bn254) {
                Ok(_) => Vec::new(),
                Err(p) => vec![panic_violation(p, case, &src)],
            }
        }
        Some("include-path") => check_include_path(case["path"].as_u64().unwrap_or(0) as usize, case["lib"].as_u64().unwrap_or(0) as usize, &root, case),
        Some("scenario") => check_scenario(case["scenario"].as_str().unwrap_or("self-include"), &root, case),
        Some("main") => {
            let src = format!(
                "pragma circom 2.1.0;\ntemplate T() {{\n    signal input in;\n    signal input in2;\n    signal output out;\n    out <== in + in2;\n}}\nfunction f(u) {{\n    return u + 1;\n}}\ntemplate M(n) {{\n    signal input in;\n    signal output out;\n    out <== in * n;\n}}\ncomponent main {}= {};\n",
                case["public"].as_str().unwrap_or(""),
                case["main"].as_str().unwrap_or("T()")
            );
            match drive(&root, "m.circom", src.as_bytes(), Curve::Bn254) {
                Ok(_) => Vec::new(),
                Err(p) => vec![panic_violation(p, case, &src)],
            }
        }
        Some("ladder") => check_ladder(case["construct"].as_str().unwrap_or("parentheses"), case["size"].as_u64().unwrap_or(10) as usize, &root, case),
        _ => Vec::new(),
    };
    let _ = std::fs::remove_dir_all(&root);
    out
}

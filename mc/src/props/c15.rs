//! C15 — dominators, immediate dominators, dominator-tree children and dominance frontiers of
//! the generic `DominatorTree::new` equal their definitions on every rooted digraph up to a node
//! bound (no isomorphism reduction: the implementation iterates in index order).
use crate::infra::{catch, par_for, Run, Tier, Violation};
use crate::refsem::dom::{dominance, mask_to_vec, Graph};
use program_structure::ssa::dominator_tree::DominatorTree;
use program_structure::ssa::traits::DirectedGraphNode;
use serde_json::{json, Value};
use std::collections::HashSet;

pub struct Node {
    index: usize,
    preds: HashSet<usize>,
    succs: HashSet<usize>,
}

impl DirectedGraphNode for Node {
    fn index(&self) -> usize {
        self.index
    }
    fn predecessors(&self) -> &HashSet<usize> {
        &self.preds
    }
    fn successors(&self) -> &HashSet<usize> {
        &self.succs
    }
}

pub fn nodes_of(g: &Graph) -> Vec<Node> {
    (0..g.n)
        .map(|i| Node {
            index: i,
            preds: mask_to_vec(g.pred[i]).into_iter().collect(),
            succs: mask_to_vec(g.succ[i]).into_iter().collect(),
        })
        .collect()
}

/// Edge set number `code` on `n` nodes: bit i*(n-1)+(j-1) is the edge i -> j, j >= 1.
pub fn graph_of(n: usize, code: u64) -> Graph {
    let mut succ = vec![0u64; n];
    for (i, s) in succ.iter_mut().enumerate() {
        let bits = (code >> (i * (n - 1))) & ((1u64 << (n - 1)) - 1);
        *s = bits << 1;
    }
    Graph::from_succ(succ)
}

fn set_to_mask(set: &HashSet<usize>) -> u64 {
    set.iter().fold(0u64, |m, &i| m | 1 << i)
}

pub fn check_graph(g: &Graph, case: &Value) -> Vec<Violation> {
    let mut out = Vec::new();
    let expected = dominance(g);
    let nodes = nodes_of(g);
    let tree = match catch(|| DominatorTree::new(&nodes)) {
        Ok(tree) => tree,
        Err(p) => {
            out.push(Violation {
                signature: p.signature(),
                what: "DominatorTree::new panicked on a rooted digraph".into(),
                case: case.clone(),
                expected: "dominator tree".into(),
                observed: format!("panic at {}:{}: {}", p.file, p.line, p.message),
            });
            return out;
        }
    };
    let edges: Vec<(usize, Vec<usize>)> =
        (0..g.n).map(|i| (i, mask_to_vec(g.succ[i]))).collect();
    for i in 0..g.n {
        let dom = set_to_mask(&tree.get_dominators(i));
        if dom != expected.dom[i] {
            out.push(Violation {
                signature: "dominator-set".into(),
                what: format!("dominator set of node {i} differs from its definition"),
                case: case.clone(),
                expected: format!("dom({i}) = {:?} in {edges:?}", mask_to_vec(expected.dom[i])),
                observed: format!("{:?}", mask_to_vec(dom)),
            });
        }
        let idom = tree.get_immediate_dominator(i);
        if idom != expected.idom[i] {
            out.push(Violation {
                signature: "immediate-dominator".into(),
                what: format!("immediate dominator of node {i} differs from its definition"),
                case: case.clone(),
                expected: format!("idom({i}) = {:?} in {edges:?}", expected.idom[i]),
                observed: format!("{idom:?}"),
            });
        }
        let children = set_to_mask(&tree.get_dominator_successors(i));
        if children != expected.children[i] {
            out.push(Violation {
                signature: "dominator-tree-children".into(),
                what: format!("dominator-tree children of node {i} do not invert idom"),
                case: case.clone(),
                expected: format!(
                    "children({i}) = {:?} in {edges:?}",
                    mask_to_vec(expected.children[i])
                ),
                observed: format!("{:?}", mask_to_vec(children)),
            });
        }
        let frontier = set_to_mask(&tree.get_dominance_frontier(i));
        if frontier != expected.frontier[i] {
            out.push(Violation {
                signature: "dominance-frontier".into(),
                what: format!("dominance frontier of node {i} differs from its definition"),
                case: case.clone(),
                expected: format!(
                    "DF({i}) = {:?} in {edges:?}",
                    mask_to_vec(expected.frontier[i])
                ),
                observed: format!("{:?}", mask_to_vec(frontier)),
            });
        }
    }
    out
}

fn sweep(run: &Run, n: usize, max_edges: Option<u32>) {
    let bits = n * (n - 1);
    let total = 1u64 << bits;
    par_for(total, 1 << 12, |code| {
        if let Some(max) = max_edges {
            if code.count_ones() > max {
                return;
            }
        }
        let g = graph_of(n, code);
        if !g.all_reachable() {
            return;
        }
        run.eval(1);
        run.watch_num("digraph", n as u64, code);
        let case = json!({"kind": "digraph", "n": n, "code": code});
        // Non-trivial: the graph has a join (a node with two predecessors), so frontiers and
        // immediate dominators are not forced by a tree shape.
        let has_join = g.pred.iter().any(|p| p.count_ones() >= 2);
        if has_join {
            run.nontrivial(1);
        }
        let violations = check_graph(&g, &case);
        if violations.is_empty() {
            if code % 9973 == 0 {
                let d = dominance(&g);
                run.outcome(&format!("idom={:?}", d.idom));
                if run.want_sample() && has_join {
                    run.sample(json!({
                        "n": n,
                        "edges": (0..n).map(|i| mask_to_vec(g.succ[i])).collect::<Vec<_>>(),
                        "idom": d.idom,
                        "frontier": d.frontier.iter().map(|m| mask_to_vec(*m)).collect::<Vec<_>>(),
                    }));
                }
            }
        } else {
            run.violations(violations);
        }
    });
}

pub fn run(run: &Run) {
    run.set_rule(
        "every edge set on n nodes (edges i->j, j>=1, self loops included) whose nodes are all \
         reachable from node 0; non-trivial = has a node with >=2 predecessors; oracle = dominance \
         by definition (node deletion + reachability)",
    );
    for n in 1..=4 {
        if n == 1 {
            // Single node: one graph.
            let g = Graph::from_succ(vec![0]);
            run.eval(1);
            run.violations(check_graph(&g, &json!({"kind": "digraph", "n": 1, "code": 0})));
        } else {
            sweep(run, n, None);
        }
    }
    sweep(run, 5, None);
    run.set_extra("node_bound_full", json!(5));
    if run.tier == Tier::Thorough {
        sweep(run, 6, Some(12));
        run.set_extra("n6_max_edges", json!(12));
        run.cap("n=6 restricted to edge sets with at most 12 edges (all such sets are enumerated)");
    }
    run.assume("graphs beyond the node bound are not explored (the property's 'randomly beyond' part is sampling and not done)");
}

pub fn replay(case: &Value) -> Vec<Violation> {
    let n = case["n"].as_u64().unwrap_or(0) as usize;
    let code = case["code"].as_u64().unwrap_or(0);
    let g = if n <= 1 { Graph::from_succ(vec![0]) } else { graph_of(n, code) };
    check_graph(&g, case)
}

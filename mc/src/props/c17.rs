//! C17 — findings are a function of the sources: deterministic and order-independent.
//! (a) analysis order (all permutations on the real runner, via the C03 explorer);
//! (b) every order of the named files; (c) every order of the definitions in a file;
//! (d) every set of unrelated extra definitions; (e) hash seeds through the getrandom shim,
//! each seed run twice.
use super::c03;
use crate::infra::{par_each, work_dir, Run, Violation};
use crate::sut::bin::{run_bin, BinOpts, BinRun};
use crate::sut::runner::{self, finding_of, Finding};
use program_structure::constants::Curve;
use serde_json::{json, Value};
use std::collections::BTreeMap;
use std::path::Path;
use std::time::Duration;

fn permutations(n: usize) -> Vec<Vec<usize>> {
    fn rec(cur: &mut Vec<usize>, used: &mut Vec<bool>, n: usize, out: &mut Vec<Vec<usize>>) {
        if cur.len() == n {
            out.push(cur.clone());
            return;
        }
        for i in 0..n {
            if !used[i] {
                used[i] = true;
                cur.push(i);
                rec(cur, used, n, out);
                cur.pop();
                used[i] = false;
            }
        }
    }
    let mut out = Vec::new();
    rec(&mut Vec::new(), &mut vec![false; n], n, &mut out);
    out
}

const UNRELATED: [&str; 3] = [
    "template U0(m) {\n    signal input a;\n    signal output b;\n    var x = m;\n    b <-- a * x;\n}\n",
    "template U1() {\n    signal input a;\n    signal output b;\n    b <== a;\n}\n",
    "function G(q) {\n    var z = q + 1;\n    return z * 2;\n}\n",
];

/// All findings of a single-file project, keyed position-independently, with the byte offset of
/// the first primary label.
fn findings_in_process(dir: &Path, text: &str) -> Result<Vec<(Finding, Option<usize>)>, String> {
    let files = runner::write_project(dir, &[("p.circom", text)]);
    let mut loaded = runner::load(&files, &[], Curve::Bn254).map_err(|p| p.signature())?;
    let collected = runner::analyze_all(&mut loaded).map_err(|p| p.signature())?;
    let lib = loaded.runner.file_library().clone();
    Ok(collected
        .reports
        .iter()
        .map(|r| {
            let f = finding_of(r, &lib);
            let pos = f.primary.first().map(|l| l.start);
            (f, pos)
        })
        .collect())
}

fn multiset<I: IntoIterator<Item = String>>(keys: I) -> BTreeMap<String, usize> {
    let mut m = BTreeMap::new();
    for k in keys {
        *m.entry(k).or_insert(0) += 1;
    }
    m
}

fn diff(a: &BTreeMap<String, usize>, b: &BTreeMap<String, usize>) -> String {
    let mut out = Vec::new();
    for (k, v) in a {
        if b.get(k).copied().unwrap_or(0) != *v {
            out.push(format!("{k} x{v} vs x{}", b.get(k).copied().unwrap_or(0)));
        }
    }
    for (k, v) in b {
        if !a.contains_key(k) {
            out.push(format!("{k} x0 vs x{v}"));
        }
    }
    out.join("\n")
}

fn first_id(d: &str) -> String {
    d.split_whitespace().next().unwrap_or("").to_string()
}

/// (c): every order of the definitions in the file.
pub fn check_definition_orders(n: usize, edges: u32, dir: &Path, case: &Value) -> (Vec<Violation>, u64) {
    let mut out = Vec::new();
    let defs = c03::definitions(n, edges);
    let mut reference: Option<BTreeMap<String, usize>> = None;
    let mut count = 0;
    for order in permutations(defs.len()) {
        let text = format!("pragma circom 2.0.0;\n{}", order.iter().map(|i| defs[*i].2.clone()).collect::<Vec<_>>().join("\n"));
        count += 1;
        match findings_in_process(dir, &text) {
            Ok(fs) => {
                let m = multiset(fs.iter().map(|(f, _)| f.key()));
                match &reference {
                    None => reference = Some(m),
                    Some(r) => {
                        if *r != m {
                            let d = diff(r, &m);
                            let mut c = case.clone();
                            c["order"] = json!(order);
                            out.push(Violation {
                                signature: format!("definition-order/{}", first_id(&d)),
                                what: format!("reordering the definitions of the file (order {order:?}) changes the findings"),
                                case: c,
                                expected: "the same multiset of findings (positions aside) for every order".into(),
                                observed: format!("{d}\n{text}"),
                            });
                            break;
                        }
                    }
                }
            }
            Err(e) => {
                out.push(Violation {
                    signature: e,
                    what: "analysis panicked".into(),
                    case: case.clone(),
                    expected: "analysis completes".into(),
                    observed: text,
                });
                break;
            }
        }
    }
    (out, count)
}

/// (d): every subset of unrelated definitions added to the project.
pub fn check_unrelated(n: usize, edges: u32, dir: &Path, case: &Value) -> (Vec<Violation>, u64) {
    let mut out = Vec::new();
    let defs = c03::definitions(n, edges);
    let core = format!("pragma circom 2.0.0;\n{}", defs.iter().map(|d| d.2.clone()).collect::<Vec<_>>().join("\n"));
    let core_len = core.len();
    let reference = match findings_in_process(dir, &core) {
        Ok(fs) => multiset(fs.iter().map(|(f, _)| f.key())),
        Err(_) => return (out, 0),
    };
    let mut count = 0;
    for subset in 1..(1u32 << UNRELATED.len()) {
        let extra: String = (0..UNRELATED.len()).filter(|i| subset >> i & 1 == 1).map(|i| UNRELATED[i]).collect::<Vec<_>>().join("\n");
        let text = format!("{core}\n{extra}");
        count += 1;
        if let Ok(fs) = findings_in_process(dir, &text) {
            // Findings whose first primary label lies in the original part of the file (or that have
            // no location) belong to the original definitions.
            let m = multiset(fs.iter().filter(|(_, pos)| pos.map(|p| p < core_len).unwrap_or(true)).map(|(f, _)| f.key()));
            if m != reference {
                let d = diff(&reference, &m);
                let mut c = case.clone();
                c["subset"] = json!(subset);
                out.push(Violation {
                    signature: format!("unrelated-definitions/{}", first_id(&d)),
                    what: "adding definitions that nothing references changes the findings of the existing definitions".into(),
                    case: c,
                    expected: "unchanged findings".into(),
                    observed: format!("{d}\n{text}"),
                });
                break;
            }
        }
    }
    (out, count)
}

fn bin(dir: &Path, args: &[String], seed: u64) -> BinRun {
    let mut a = args.to_vec();
    a.extend(["--level".to_string(), "info".to_string(), "--verbose".to_string()]);
    run_bin(&BinOpts { args: a, cwd: dir, hash_seed: Some(seed), timeout: Duration::from_secs(60), sarif_file: None, mem_limit: None })
}

fn diag_multiset(run: &BinRun) -> BTreeMap<String, usize> {
    multiset(run.diagnostics.iter().map(|d| {
        format!(
            "{} [{}] {} @{}",
            d.id.clone().unwrap_or_default(),
            d.level(),
            d.message,
            d.location.as_ref().map(|(p, l, c)| format!("{}:{l}:{c}", p.rsplit('/').next().unwrap_or(p))).unwrap_or_default()
        )
    }))
}

/// (b): every order of the named files; (e): hash seeds.
pub fn check_files_and_seeds(n: usize, edges: u32, seeds: u64, dir: &Path, case: &Value) -> (Vec<Violation>, u64, usize) {
    let mut out = Vec::new();
    let defs = c03::definitions(n, edges);
    let _ = std::fs::create_dir_all(dir);
    // One definition per file; every file includes all the others it needs.
    let mut names = Vec::new();
    for (i, (_, name, src)) in defs.iter().enumerate() {
        let includes: String = defs.iter().enumerate().filter(|(j, _)| *j != i).map(|(_, d)| format!("include \"{}.circom\";\n", d.1)).collect();
        std::fs::write(dir.join(format!("{name}.circom")), format!("pragma circom 2.0.0;\n{includes}{src}")).expect("write");
        names.push(format!("{name}.circom"));
    }
    let mut runs = 0;
    let mut reference: Option<BTreeMap<String, usize>> = None;
    for order in permutations(names.len()) {
        let args: Vec<String> = order.iter().map(|i| names[*i].clone()).collect();
        let r = bin(dir, &args, 1);
        runs += 1;
        let m = diag_multiset(&r);
        match &reference {
            None => reference = Some(m),
            Some(refm) => {
                if *refm != m || r.exit.is_none() {
                    let d = diff(refm, &m);
                    let mut c = case.clone();
                    c["file_order"] = json!(args);
                    out.push(Violation {
                        signature: format!("file-order/{}", first_id(&d)),
                        what: format!("naming the input files in the order {args:?} changes the displayed findings"),
                        case: c,
                        expected: "the same multiset of findings for every order of the input files".into(),
                        observed: d,
                    });
                    break;
                }
            }
        }
    }
    // Seeds: single file with all definitions; each seed twice.
    let text = format!("pragma circom 2.0.0;\n{}", defs.iter().map(|d| d.2.clone()).collect::<Vec<_>>().join("\n"));
    std::fs::write(dir.join("all.circom"), &text).expect("write");
    let mut seed_reference: Option<BTreeMap<String, usize>> = None;
    let mut orders_seen = std::collections::BTreeSet::new();
    for seed in 0..seeds {
        let a = bin(dir, &["all.circom".to_string()], seed);
        let b = bin(dir, &["all.circom".to_string()], seed);
        runs += 2;
        orders_seen.insert(format!("{:?}", a.analyzed));
        if a.stdout != b.stdout || a.exit != b.exit {
            let mut c = case.clone();
            c["seed"] = json!(seed);
            out.push(Violation {
                signature: "MACHINERY-seed-not-owned".into(),
                what: "two runs under the same hash seed differ: some nondeterminism is not owned by the harness".into(),
                case: c,
                expected: "byte-identical output".into(),
                observed: format!("{}\n----\n{}", crate::infra::truncate(&a.stdout, 400), crate::infra::truncate(&b.stdout, 400)),
            });
            break;
        }
        let m = diag_multiset(&a);
        match &seed_reference {
            None => seed_reference = Some(m),
            Some(refm) => {
                if *refm != m {
                    let d = diff(refm, &m);
                    let mut c = case.clone();
                    c["seed"] = json!(seed);
                    out.push(Violation {
                        signature: format!("hash-seed/{}", first_id(&d)),
                        what: format!("the displayed findings depend on the hash seed (seed {seed} vs seed 0)"),
                        case: c,
                        expected: "the same multiset of findings under every hash seed".into(),
                        observed: d,
                    });
                    break;
                }
            }
        }
    }
    (out, runs, orders_seen.len())
}

/// Programs in which every tracking pass sees several items under the same key with
/// asymmetric uses, so that an answer which depends on which item a hash map yields first
/// changes with the hash seed.
pub const PASS_CORPUS: &str = "pragma circom 2.0.0;

template IsZero() {
    signal input in;
    signal output out;
    signal inv;
    inv <-- in != 0 ? 1 / in : 0;
    out <== -in * inv + 1;
    in * out === 0;
}

template Num2Bits(n) {
    signal input in;
    signal output out[n];
    var lc = 0;
    for (var i = 0; i < n; i++) {
        out[i] <-- (in >> i) & 1;
        out[i] * (out[i] - 1) === 0;
        lc += out[i] * 2 ** i;
    }
    lc === in;
}

template LessThan(n) {
    signal input in[2];
    signal output out;
    component n2b = Num2Bits(n + 1);
    n2b.in <== in[0] + (1 << n) - in[1];
    out <== 1 - n2b.out[n];
}

// Two IsZero components on the same divisor, only one of which forces it to be non-zero.
template DivideA() {
    signal input num;
    signal input den;
    signal output quot;
    signal output flag;
    component z1 = IsZero();
    z1.in <== den;
    z1.out === flag;
    component z2 = IsZero();
    z2.in <== den;
    z2.out === 0;
    quot <-- num / den;
    quot * den === num;
}

// The same with the roles swapped, and a third component.
template DivideB() {
    signal input num;
    signal input den;
    signal output quot;
    signal output flag;
    component z1 = IsZero();
    z1.in <== den;
    z1.out === 0;
    component z2 = IsZero();
    z2.in <== den;
    z2.out === flag;
    component z3 = IsZero();
    z3.in <== den;
    quot <-- num / den;
    quot * den === num;
}

// Two range checks of different width on each LessThan input.
template CompareA() {
    signal input a;
    signal input b;
    signal output ok;
    component r1 = Num2Bits(300);
    r1.in <== a;
    component r2 = Num2Bits(32);
    r2.in <== a;
    component r3 = Num2Bits(32);
    r3.in <== b;
    component r4 = Num2Bits(300);
    r4.in <== b;
    component lt = LessThan(32);
    lt.in[0] <== a;
    lt.in[1] <== b;
    ok <== lt.out;
}

// Several assignments and constraints of the same signals.
template AssignA(n) {
    signal input in;
    signal output out;
    signal mid;
    signal other;
    if (n > 0) {
        mid <-- in * in * in;
    } else {
        mid <-- in \\ 2;
    }
    other <-- in * in * in;
    mid === in * in;
    mid * mid === in;
    other === in;
    out <== mid + other;
    var x = 0;
    if (n > 1) {
        var x = 1;
        x = x + n;
    } else {
        var x = 2;
        x = x + 1;
    }
    component u1 = IsZero();
    u1.in <== in;
    component u2 = IsZero();
    u2.in <== mid;
    u2.out === 0;
}
\n// Joins with three and more incoming paths and several variables merged there (the order of\n// the phi statements of a block and of the children in the dominator tree comes from hash sets).\n// The same signal name declared in two sibling scopes, both unused.\ntemplate Scopes(n) {\n    signal input in;\n    signal output out;\n    if (n > 1) {\n        signal tmp[2];\n    } else {\n        signal tmp;\n    }\n    out <== in;\n}\n\n// Two findings of one rule at one location (the parameter list).\nfunction twopar(p, q, r) {\n    return 1;\n}\n\nfunction chain(n) {\n    var a = 0;\n    var b = 0;\n    var c = 0;\n    if (n == 1) {\n        a = 1;\n    } else if (n == 2) {\n        b = 2;\n    } else if (n == 3) {\n        c = 3;\n    } else {\n        a = 4;\n        c = 4;\n    }\n    return a * 100 + b * 10 + c;\n}\n\ntemplate Chain(n, m) {\n    signal input in;\n    signal output out;\n    var a = 0;\n    var b = 0;\n    var c = 0;\n    if (n > 1) {\n        a = 1;\n        if (m > 2) {\n            b = 2;\n            if (n > m) {\n                c = 3;\n            }\n        }\n    }\n    out <== in * (a + b + c + chain(n));\n}\n";

/// (f): the pass corpus under every hash seed, each seed twice.
pub fn check_pass_corpus(seeds: u64, dir: &Path, case: &Value) -> (Vec<Violation>, u64) {
    let mut out = Vec::new();
    let _ = std::fs::create_dir_all(dir);
    std::fs::write(dir.join("passes.circom"), PASS_CORPUS).expect("write");
    let mut reference: Option<BTreeMap<String, usize>> = None;
    let mut runs = 0;
    let sarif_keys = |path: &Path| -> Vec<String> {
        let Ok(text) = std::fs::read_to_string(path) else { return vec!["<no sarif file>".into()] };
        let Ok(v) = serde_json::from_str::<Value>(&text) else { return vec!["<invalid sarif>".into()] };
        let mut keys: Vec<String> = crate::sut::bin::sarif_results(&v)
            .0
            .iter()
            .map(|r| format!("{}|{}|{}|{:?}|{:?}", r.rule_id, r.level, r.message, r.locations.iter().map(|l| (l.1, l.2, l.3, l.4)).collect::<Vec<_>>(), {
                let mut rel: Vec<_> = r.related.iter().map(|l| (l.1, l.2, l.3, l.4)).collect();
                rel.sort();
                rel
            }))
            .collect();
        keys.sort();
        keys
    };
    let mut sarif_reference: Option<Vec<String>> = None;
    for seed in 0..seeds {
        let sarif_path = dir.join("passes.sarif");
        let _ = std::fs::remove_file(&sarif_path);
        let a = bin(dir, &["passes.circom".to_string(), "--sarif-file".to_string(), sarif_path.display().to_string()], seed);
        // The SARIF file must hold the same results under every seed, too.
        let sk = sarif_keys(&sarif_path);
        match &sarif_reference {
            None => sarif_reference = Some(sk),
            Some(r) if *r != sk => {
                let mut c = case.clone();
                c["seed"] = json!(seed);
                let lost: Vec<&String> = r.iter().filter(|k| !sk.contains(k)).collect();
                let extra: Vec<&String> = sk.iter().filter(|k| !r.contains(k)).collect();
                out.push(Violation {
                    signature: format!("hash-seed/sarif/{}", lost.first().or(extra.first()).map(|k| k.split('|').next().unwrap_or("")).unwrap_or("")),
                    what: format!("the SARIF results for the pass corpus depend on the hash seed (seed {seed} vs seed 0)"),
                    case: c,
                    expected: "the same SARIF results under every hash seed".into(),
                    observed: format!("only with seed 0: {lost:?}\nonly with seed {seed}: {extra:?}"),
                });
                break;
            }
            _ => {}
        }
        let b = bin(dir, &["passes.circom".to_string(), "--sarif-file".to_string(), sarif_path.display().to_string()], seed);
        runs += 2;
        if a.stdout != b.stdout {
            out.push(Violation {
                signature: "MACHINERY-seed-not-owned".into(),
                what: "two runs under the same hash seed differ".into(),
                case: case.clone(),
                expected: "byte-identical output".into(),
                observed: crate::infra::truncate(&a.stdout, 300),
            });
            break;
        }
        let m = diag_multiset(&a);
        match &reference {
            None => {
                if m.is_empty() {
                    out.push(Violation {
                        signature: "MACHINERY-pass-corpus-silent".into(),
                        what: "the pass corpus produced no finding at all".into(),
                        case: case.clone(),
                        expected: "findings".into(),
                        observed: crate::infra::truncate(&a.stdout, 300),
                    });
                    break;
                }
                reference = Some(m)
            }
            Some(refm) => {
                if *refm != m {
                    let d = diff(refm, &m);
                    let mut c = case.clone();
                    c["seed"] = json!(seed);
                    out.push(Violation {
                        signature: format!("hash-seed/pass-corpus/{}", first_id(&d)),
                        what: format!("the findings for the pass corpus depend on the hash seed (seed {seed} vs seed 0)"),
                        case: c,
                        expected: "the same multiset of findings under every hash seed".into(),
                        observed: d,
                    });
                    break;
                }
            }
        }
    }
    (out, runs)
}

/// (g): files that are independent of each other (no includes). Three of them are variants with
/// the same layout - the same findings at the same byte offsets, under definition names of the
/// same length. For every non-empty subset of the files (in two orders) the findings must be the
/// disjoint union of the findings of the files run alone.
pub fn check_file_subsets(dir: &Path, case: &Value) -> (Vec<Violation>, u64) {
    let variant = |name: &str, prefix: &str| {
        format!(
            "{prefix}pragma circom 2.0.0;\n\nfunction h{name}(q) {{\n    var unused = q;\n    return q * 2;\n}}\n\ntemplate Mul{name}(n) {{\n    signal input a;\n    signal input b;\n    signal output c;\n    signal output d;\n    var x = h{name}(n);\n    if (n > 1) {{\n        var x = 2;\n        x += 1;\n    }}\n    c <-- a * b;\n    d <-- a / b;\n}}\n"
        )
    };
    let files: Vec<(String, String)> = vec![
        ("va.circom".into(), variant("A", "")),
        ("vb.circom".into(), variant("B", "")),
        ("vc.circom".into(), variant("C", "// shifted\n")),
        ("other.circom".into(), "pragma circom 2.0.0;\n\ntemplate Other() {\n    signal input in;\n    signal output out;\n    out <-- in * in * in;\n}\n".into()),
    ];
    let _ = std::fs::create_dir_all(dir);
    for (n, t) in &files {
        std::fs::write(dir.join(n), t).expect("write");
    }
    let mut out = Vec::new();
    let mut evals = 0u64;
    let alone: Vec<BTreeMap<String, usize>> = files.iter().map(|(n, _)| diag_multiset(&bin(dir, &[n.clone()], 1))).collect();
    for subset in 1u32..(1 << files.len()) {
        let members: Vec<usize> = (0..files.len()).filter(|i| subset >> i & 1 == 1).collect();
        let mut expected: BTreeMap<String, usize> = BTreeMap::new();
        for i in &members {
            for (k, v) in &alone[*i] {
                *expected.entry(k.clone()).or_insert(0) += v;
            }
        }
        for reversed in [false, true] {
            for seed in [1u64, 2] {
                let mut args: Vec<String> = members.iter().map(|i| files[*i].0.clone()).collect();
                if reversed {
                    args.reverse();
                }
                evals += 1;
                let got = diag_multiset(&bin(dir, &args, seed));
                if got != expected {
                    let d = diff(&expected, &got);
                    out.push(Violation {
                        signature: format!("file-subset/{}", first_id(&d)),
                        what: format!("independent files {args:?} run together do not give the union of their findings when run alone"),
                        case: {
                            let mut c = case.clone();
                            c["subset"] = json!(subset);
                            c
                        },
                        expected: "the disjoint union of the findings of each file alone".into(),
                        observed: d,
                    });
                    return (out, evals);
                }
            }
        }
    }
    (out, evals)
}

/// (i): one definition with a dependency chain of more than a thousand variables (work lists and
/// search budgets inside the passes meet their limits in hash order first): same findings
/// under a few seeds.
pub fn check_long_chain(seeds: u64, dir: &Path, case: &Value) -> (Vec<Violation>, u64) {
    let _ = std::fs::create_dir_all(dir);
    let mut src = String::from("pragma circom 2.0.0;\ntemplate Chain() {\n    signal input in[5];\n    signal output out;\n    signal output short;\n");
    for i in 0..4 {
        src.push_str(&format!("    var a{i} = in[{i}];\n"));
    }
    src.push_str("    var c0 = a0 + a1 + a2 + a3 + in[4];\n");
    for i in 1..=1100 {
        src.push_str(&format!("    var c{i} = c{} + {};\n", i - 1, i % 3 + 1));
    }
    src.push_str("    out <== c1100;\n    short <== a0 + a1;\n}\n");
    std::fs::write(dir.join("chain.circom"), &src).expect("write");
    let mut out = Vec::new();
    let mut reference: Option<BTreeMap<String, usize>> = None;
    let mut runs = 0;
    for seed in 0..seeds {
        let r = bin(dir, &["chain.circom".to_string()], seed);
        runs += 1;
        let m = diag_multiset(&r);
        match &reference {
            None => reference = Some(m),
            Some(refm) if *refm != m => {
                let d = diff(refm, &m);
                let mut c = case.clone();
                c["seed"] = json!(seed);
                out.push(Violation {
                    signature: format!("hash-seed/long-chain/{}", first_id(&d)),
                    what: format!("the findings for a definition with a 1100-variable dependency chain depend on the hash seed (seed {seed} vs seed 0)"),
                    case: c,
                    expected: "the same findings under every hash seed".into(),
                    observed: d,
                });
                break;
            }
            _ => {}
        }
    }
    (out, runs)
}

/// (h): projects in which a definition name is used twice (in two named files, with and
/// without a main component in a third; in a named and an included file). Which definition is
/// kept is the tool's choice, but it must not depend on the hash seed: same files, same
/// arguments, same findings.
pub fn check_duplicate_names(seeds: u64, dir: &Path, case: &Value) -> (Vec<Violation>, u64) {
    let a = "pragma circom 2.1.4;\ntemplate A() {\n    signal input in;\n    signal output out;\n    out <== in;\n}\nfunction f(q) {\n    return q;\n}\n";
    let b = "pragma circom 2.1.4;\ntemplate A() {\n    signal input in;\n    signal output out;\n    out <-- in * in * in;\n}\nfunction f(q) {\n    var unused = 1;\n    return q * 2;\n}\n";
    let c = "pragma circom 2.1.4;\ninclude \"a.circom\";\ntemplate C() {\n    signal input in;\n    signal output out;\n    component x = A();\n    x.in <== in;\n    out <== x.out;\n}\n";
    let m = "pragma circom 2.1.4;\ntemplate Main() {\n    signal input in;\n    signal output out;\n    out <== in;\n}\ncomponent main = Main();\n";
    // A file in which some definitions are rejected (malformed tuple, sugar in a function,
    // repeated parameter) next to definitions that are fine: which ones are analysed must not
    // depend on the seed either.
    let e = "pragma circom 2.1.4;\ntemplate Bad1() {\n    signal input a;\n    signal output b;\n    signal output c;\n    (b, c) <== (a, a, a);\n}\ntemplate Good1() {\n    signal input in;\n    signal output out;\n    out <-- in * in * in;\n}\ntemplate Bad2(n, n) {\n    signal input in;\n}\ntemplate Good2() {\n    signal input in;\n    signal output out;\n    var unused = 1;\n    out <== in;\n}\nfunction bad3(q) {\n    var (x, y) = (q, q);\n    return x;\n}\ntemplate Good3(k) {\n    signal input in;\n    signal output out;\n    out <== in * k;\n}\nfunction good4(q) {\n    return q + 1;\n}\n";
    let _ = std::fs::create_dir_all(dir);
    for (n, t) in [("a.circom", a), ("b.circom", b), ("c.circom", c), ("m.circom", m), ("e.circom", e)] {
        std::fs::write(dir.join(n), t).expect("write");
    }
    let scenarios: [&[&str]; 7] = [&["a.circom", "b.circom"], &["b.circom", "a.circom"], &["a.circom", "b.circom", "m.circom"], &["b.circom", "c.circom"], &["c.circom", "b.circom", "m.circom"], &["e.circom"], &["e.circom", "m.circom"]];
    let mut out = Vec::new();
    let mut runs = 0u64;
    for (si, args) in scenarios.iter().enumerate() {
        let args: Vec<String> = args.iter().map(|s| s.to_string()).collect();
        let mut reference: Option<(BTreeMap<String, usize>, Vec<(String, String)>)> = None;
        for seed in 0..seeds {
            let r = bin(dir, &args, seed);
            runs += 1;
            let mut analysed = r.analyzed.clone();
            analysed.sort();
            let now = (diag_multiset(&r), analysed);
            match &reference {
                None => reference = Some(now),
                Some(refr) => {
                    if *refr != now {
                        let d = diff(&refr.0, &now.0);
                        let mut c = case.clone();
                        c["scenario"] = json!(si);
                        c["seed"] = json!(seed);
                        out.push(Violation {
                            signature: format!("hash-seed/duplicate-names/{}", first_id(&d)),
                            what: format!("{args:?}: a definition name is used twice and the findings depend on the hash seed (seed {seed} vs seed 0)"),
                            case: c,
                            expected: "the same findings under every hash seed".into(),
                            observed: format!("{d}\nanalysed {:?} vs {:?}", refr.1, now.1),
                        });
                        break;
                    }
                }
            }
        }
    }
    (out, runs)
}

pub fn run(run: &Run) {
    run.set_rule(
        "projects = the C03 instantiation digraphs (templates carrying CFG-stage and pass-stage \
         findings + a function); (a) every analysis order on the real runner; (b) every order of the \
         named files (one definition per file); (c) every order of the definitions inside a file; \
         (d) every non-empty subset of 3 unrelated definitions added; (e) hash seeds 0..K through \
         the getrandom shim, each seed twice; (f) a corpus in which every tracking pass sees several \
         items under one key with asymmetric uses, under 4K hash seeds; (g) every non-empty subset (two orders, two seeds) of 4 \
         independent files, three of which carry the same findings at the same byte offsets: findings \
         together = union of findings alone; non-trivial = project with at least one edge",
    );
    let root = work_dir("c17");
    let seeds = run.tier.pick(16u64, 256u64);
    // Shapes: all 2-template relations and a spread of 3-template relations.
    let mut shapes: Vec<(usize, u32)> = (0..16u32).map(|e| (2usize, e)).collect();
    let step = run.tier.pick(37, 5);
    shapes.extend((0..512u32).step_by(step).map(|e| (3usize, e)));
    shapes.push((3, 511));
    run.set_extra("shapes", json!(shapes.len()));
    run.set_extra("hash_seeds", json!(seeds));
    let max_orders = std::sync::atomic::AtomicUsize::new(0);
    par_each(&shapes, |i, (n, edges)| {
        let dir = root.join(format!("s{i}"));
        let case = json!({"kind": "shape", "n": n, "edges": edges});
        if run.too_many_hangs() {
            return;
        }
        run.watch(&case);
        // (a)
        let (vs, stats) = c03::check_shape(*n, *edges, &dir.join("a"), &json!({"kind": "analysis-order", "n": n, "edges": edges, "main": i % 2 == 1}));
        run.add_states(stats.states);
        run.add_transitions(stats.events);
        run.add_traces(stats.histories);
        let renamed: Vec<Violation> = vs
            .into_iter()
            .map(|mut v| {
                v.signature = format!("analysis-order/{}", v.signature);
                v
            })
            .collect();
        run.violations(renamed);
        run.watch(&case);
        let (vs, k) = check_definition_orders(*n, *edges, &dir.join("c"), &json!({"kind": "definition-order", "n": n, "edges": edges}));
        run.eval(k);
        run.violations(vs);
        run.watch(&case);
        let (vs, k) = check_unrelated(*n, *edges, &dir.join("d"), &json!({"kind": "unrelated", "n": n, "edges": edges}));
        run.eval(k);
        run.violations(vs);
        run.watch(&case);
        // Seeds on a slice of the shapes (every shape gets the file-order sweep).
        let s = if i % 4 == 0 { seeds } else { 2 };
        let (vs, k, orders) = check_files_and_seeds(*n, *edges, s, &dir.join("b"), &json!({"kind": "files-seeds", "n": n, "edges": edges, "seeds": s}));
        run.eval(k + stats.histories);
        max_orders.fetch_max(orders, std::sync::atomic::Ordering::Relaxed);
        run.violations(vs);
        if *edges != 0 {
            run.nontrivial(1);
        }
        run.outcome(&format!("n={n},orders-realised={orders}"));
        if run.want_sample() && i % 5 == 1 {
            run.sample(json!({"n": n, "edges": edges, "definitions": c03::definitions(*n, *edges).iter().map(|d| d.1.clone()).collect::<Vec<_>>()}));
        }
        let _ = std::fs::remove_dir_all(&dir);
    });
    // (f)
    {
        let case = json!({"kind": "pass-corpus", "seeds": seeds * 4});
        // Thousands of binary runs, each under its own deadline: not one watched case.
        run.idle();
        let (vs, k) = check_pass_corpus(seeds * 4, &root.join("f"), &case);
        run.idle();
        run.eval(k);
        run.nontrivial(1);
        run.violations(vs);
    }
    // (g)
    {
        let case = json!({"kind": "file-subsets"});
        run.idle();
        let (vs, k) = check_file_subsets(&root.join("g"), &case);
        run.idle();
        run.eval(k);
        run.nontrivial(1);
        run.set_extra("file_subset_runs", json!(k));
        run.violations(vs);
    }
    // (i)
    {
        let n = run.tier.pick(6u64, 24u64);
        let case = json!({"kind": "long-chain", "seeds": n});
        run.idle();
        let (vs, k) = check_long_chain(n, &root.join("i"), &case);
        run.eval(k);
        run.nontrivial(1);
        run.violations(vs);
    }
    // (h)
    {
        let case = json!({"kind": "duplicate-names", "seeds": seeds});
        run.idle();
        let (vs, k) = check_duplicate_names(seeds, &root.join("h"), &case);
        run.eval(k);
        run.nontrivial(1);
        run.violations(vs);
    }
    run.set_extra("max_distinct_analysis_orders_realised_by_seed_sweep", json!(max_orders.load(std::sync::atomic::Ordering::Relaxed)));
    let _ = std::fs::remove_dir_all(&root);
    run.assume("(e) enumerates hash seeds, not all iteration orders of all internal maps: owned and replayable, but not exhaustive; (a)-(d) are exhaustive within their bounds");
}

pub fn replay(case: &Value) -> Vec<Violation> {
    let n = case["n"].as_u64().unwrap_or(2) as usize;
    let edges = case["edges"].as_u64().unwrap_or(0) as u32;
    let root = work_dir("c17-replay");
    let out = match case["kind"].as_str() {
        Some("analysis-order") | Some("order") => c03::check_shape(n, edges, &root, case).0,
        Some("definition-order") => check_definition_orders(n, edges, &root, case).0,
        Some("unrelated") => check_unrelated(n, edges, &root, case).0,
        Some("pass-corpus") => check_pass_corpus(case["seeds"].as_u64().unwrap_or(64), &root, case).0,
        Some("file-subsets") => check_file_subsets(&root, case).0,
        Some("long-chain") => check_long_chain(case["seeds"].as_u64().unwrap_or(6), &root, case).0,
        Some("duplicate-names") => check_duplicate_names(case["seeds"].as_u64().unwrap_or(16), &root, case).0,
        Some("files-seeds") => check_files_and_seeds(n, edges, case["seeds"].as_u64().unwrap_or(16), &root, case).0,
        _ => {
            let mut v = c03::check_shape(n, edges, &root.join("a"), case).0;
            v.extend(check_definition_orders(n, edges, &root.join("c"), case).0);
            v.extend(check_unrelated(n, edges, &root.join("d"), case).0);
            v.extend(check_files_and_seeds(n, edges, 16, &root.join("b"), case).0);
            v
        }
    };
    let _ = std::fs::remove_dir_all(&root);
    out
}

use crate::infra::{Run, Violation};
use serde_json::Value;

pub mod c01;
pub mod c02;
pub mod c03;
pub mod c04;
pub mod c05;
pub mod c05b;
pub mod c06;
pub mod c07;
pub mod c08;
pub mod c09;
pub mod c10;
pub mod c11;
pub mod c12;
pub mod c13;
pub mod c14;
pub mod c15;
pub mod c17;
pub mod c18;
pub mod c19;
pub mod c20;
pub mod cfgcheck;
pub mod decor;
pub mod valspace;
pub mod c16;

pub struct Entry {
    pub level: &'static str,
    pub run: fn(&Run),
    pub replay: fn(&Value) -> Vec<Violation>,
}

pub fn lookup(id: &str) -> Option<Entry> {
    Some(match id {
        "C01" => Entry { level: "exploration", run: c01::run, replay: c01::replay },
        "C02" => Entry { level: "fault_enumeration", run: c02::run, replay: c02::replay },
        "C03" => Entry { level: "model_checking", run: c03::run, replay: c03::replay },
        "C04" => Entry { level: "exploration", run: c04::run, replay: c04::replay },
        "C05" => Entry { level: "model_checking", run: c05::run, replay: c05::replay },
        "C06" => Entry { level: "exploration", run: c06::run, replay: c06::replay },
        "C07" => Entry { level: "exploration", run: c07::run, replay: c07::replay },
        "C08" => Entry { level: "exploration", run: c08::run, replay: c08::replay },
        "C09" => Entry { level: "exploration", run: c09::run, replay: c09::replay },
        "C10" => Entry { level: "exploration", run: c10::run, replay: c10::replay },
        "C11" => Entry { level: "exploration", run: c11::run, replay: c11::replay },
        "C12" => Entry { level: "exploration", run: c12::run, replay: c12::replay },
        "C13" => Entry { level: "model_checking", run: c13::run, replay: c13::replay },
        "C14" => Entry { level: "model_checking", run: c14::run, replay: c14::replay },
        "C15" => Entry { level: "exploration", run: c15::run, replay: c15::replay },
        "C16" => Entry { level: "exploration", run: c16::run, replay: c16::replay },
        "C17" => Entry { level: "model_checking", run: c17::run, replay: c17::replay },
        "C18" => Entry { level: "exploration", run: c18::run, replay: c18::replay },
        "C19" => Entry { level: "model_checking", run: c19::run, replay: c19::replay },
        "C20" => Entry { level: "model_checking", run: c20::run, replay: c20::replay },
        _ => return None,
    })
}

//! C07 — degree claims are sound. Oracle: for a node whose claimed upper bound is d in
//! {constant, linear, quadratic}, evaluate the node along lines `base + t*direction` in the space
//! of indeterminates (signals / ports in templates, parameters in functions) for t = 0..d+1 and
//! require the (d+1)-th finite difference to vanish. A polynomial of total degree <= d restricted
//! to a line has degree <= d in t, so a non-zero difference proves the claim false.
use super::valspace::{cf_opts, digits, expr_coordinate};
use crate::infra::{par_each, Run, Violation};
use crate::refsem::field::{real_primes, Field};
use crate::refsem::interp::{Machine, Observer, Stop, Val, World};
use crate::space::prog::{print_def, Atom, Body, Cond, Def, DefKind, Ev, Node};
use crate::space::skel::{enumerate, instantiate, Filler, Sk};
use crate::sut::pipe::{self};
use num_bigint_dig::BigUint;
use num_traits::Zero;
use program_structure::cfg::Cfg;
use program_structure::ir::degree_meta::Degree;
use program_structure::ir::{Expression, Statement};
use serde_json::{json, Value};

/// Indeterminates: the first letter-class of the path selects one of three coordinates.
pub struct LineWorld {
    pub p: BigUint,
    pub base: [u64; 3],
    pub dir: [u64; 3],
    pub t: u64,
    /// In templates parameters are constants; in functions they are the indeterminates.
    pub params_vary: bool,
}

fn slot(path: &str) -> Option<usize> {
    // in, in2, arr[..], c.out, c.out2 ... are spread over the three coordinates.
    let head = path.split(|c| c == '[' || c == '.').next().unwrap_or(path);
    match head {
        "in" | "a" => Some(0),
        "in2" | "b" | "arr" => Some(1),
        "c" | "in3" | "mid" | "out" | "sc" => Some(2),
        _ => None,
    }
}

impl World for LineWorld {
    fn input(&self, path: &str) -> BigUint {
        let is_param = matches!(path, "n" | "a" | "b");
        if is_param && !self.params_vary {
            return BigUint::from(2u32);
        }
        if path == "n" {
            return BigUint::from(2u32);
        }
        match slot(path) {
            Some(i) => {
                // Distinct elements of an array / ports of a component differ by a constant offset.
                let offset = path.bytes().filter(|b| b.is_ascii_digit()).map(|b| (b - b'0') as u64).sum::<u64>();
                BigUint::from(self.base[i] + self.t * self.dir[i] + 7 * offset) % &self.p
            }
            None => BigUint::from(3u32),
        }
    }
    fn call(&self, field: &Field, name: &str, args: &[Val]) -> Option<Val> {
        crate::refsem::interp::native_call(field, name, args)
    }
}

struct DegreeTrace {
    /// (node address (+ element number for arrays), claimed bound 0/1/2, value)
    trace: Vec<(usize, u8, BigUint)>,
}

fn flatten(v: &Val, out: &mut Vec<BigUint>) {
    match v {
        Val::Num(n) => out.push(n.clone()),
        Val::Arr(items) => items.iter().for_each(|i| flatten(i, out)),
    }
}

fn bound_of(e: &Expression) -> Option<u8> {
    let range = e.meta().degree_knowledge().degree()?;
    match range.end() {
        Degree::Constant => Some(0),
        Degree::Linear => Some(1),
        Degree::Quadratic => Some(2),
        Degree::NonQuadratic => None,
    }
}

impl Observer for DegreeTrace {
    fn expr(&mut self, e: &Expression, value: &Val) {
        if let (Some(bound), Val::Num(v)) = (bound_of(e), value) {
            self.trace.push((e as *const Expression as usize, bound, v.clone()));
        }
    }
    fn assigned(&mut self, stmt: &Statement, value: &Val) {
        if let Statement::Substitution { rhe: rhe @ Expression::Phi { .. }, .. } = stmt {
            if let (Some(bound), Val::Num(v)) = (bound_of(rhe), value) {
                self.trace.push((rhe as *const Expression as usize, bound, v.clone()));
            }
        }
        // The bound claimed for an element update covers every element of the updated array.
        if let Statement::Substitution { rhe: rhe @ Expression::Update { .. }, .. } = stmt {
            if let Some(bound) = bound_of(rhe) {
                let mut elems = Vec::new();
                flatten(value, &mut elems);
                for v in elems {
                    self.trace.push((rhe as *const Expression as usize, bound, v));
                }
            }
        }
    }
}

pub const BASES: [[u64; 3]; 6] = [[0, 0, 0], [1, 5, 2], [5, 1, 0], [2, 0, 5], [1, 1, 1], [0, 5, 1]];
pub const DIRS: [[u64; 3]; 5] = [[1, 0, 0], [0, 1, 0], [0, 0, 1], [1, 1, 1], [1, 2, 3]];

pub struct DegAudit {
    pub violations: Vec<Violation>,
    pub claims: u64,
    pub lines_compared: u64,
    pub lines_skipped: u64,
}

fn find_node<'a>(cfg: &'a Cfg, addr: usize) -> Option<String> {
    fn walk(e: &Expression, addr: usize) -> Option<String> {
        if e as *const Expression as usize == addr {
            return Some(format!("{e:?} @@{}", expr_coordinate_deg(e)));
        }
        use Expression::*;
        match e {
            InfixOp { lhe, rhe, .. } => walk(lhe, addr).or_else(|| walk(rhe, addr)),
            PrefixOp { rhe, .. } => walk(rhe, addr),
            SwitchOp { cond, if_true, if_false, .. } => {
                walk(cond, addr).or_else(|| walk(if_true, addr)).or_else(|| walk(if_false, addr))
            }
            Call { args, .. } => args.iter().find_map(|a| walk(a, addr)),
            InlineArray { values, .. } => values.iter().find_map(|a| walk(a, addr)),
            Access { access, .. } => access.iter().find_map(|a| match a {
                program_structure::ir::AccessType::ArrayAccess(i) => walk(i, addr),
                _ => None,
            }),
            Update { access, rhe, .. } => walk(rhe, addr).or_else(|| {
                access.iter().find_map(|a| match a {
                    program_structure::ir::AccessType::ArrayAccess(i) => walk(i, addr),
                    _ => None,
                })
            }),
            _ => None,
        }
    }
    for block in cfg.iter() {
        for stmt in block.iter() {
            let found = match stmt {
                Statement::Declaration { dimensions, .. } => dimensions.iter().find_map(|d| walk(d, addr)),
                Statement::IfThenElse { cond, .. } => walk(cond, addr),
                Statement::Return { value, .. } => walk(value, addr),
                Statement::Substitution { rhe, .. } => walk(rhe, addr),
                Statement::ConstraintEquality { lhe, rhe, .. } => walk(lhe, addr).or_else(|| walk(rhe, addr)),
                Statement::LogCall { .. } => None,
                Statement::Assert { arg, .. } => walk(arg, addr),
            };
            if found.is_some() {
                return found;
            }
        }
    }
    None
}

fn find_expr(cfg: &Cfg, addr: usize) -> Option<&Expression> {
    for block in cfg.iter() {
        for stmt in block.iter() {
            if let Statement::Substitution { rhe, .. } = stmt {
                if rhe as *const Expression as usize == addr {
                    return Some(rhe);
                }
            }
        }
    }
    None
}

/// Root-cause coordinate of a degree claim: node kind, operator and the claimed bounds of the
/// operands (so that a different broken cell of the degree table is a different signature).
pub fn expr_coordinate_deg(e: &Expression) -> String {
    let b = |x: &Expression| match bound_of(x) {
        Some(0) => "const",
        Some(1) => "lin",
        Some(2) => "quad",
        _ => "none",
    };
    use Expression::*;
    match e {
        InfixOp { lhe, rhe, infix_op, .. } => format!("InfixOp({infix_op})[{},{}]", b(lhe), b(rhe)),
        PrefixOp { rhe, prefix_op, .. } => format!("PrefixOp({prefix_op})[{}]", b(rhe)),
        SwitchOp { cond, if_true, if_false, .. } => format!("SwitchOp[{},{},{}]", b(cond), b(if_true), b(if_false)),
        Call { args, .. } => format!("Call[{}]", args.iter().map(|a| b(a)).collect::<Vec<_>>().join(",")),
        Access { access, .. } => {
            // What selects the element: kind and claimed bound of the first index that is not a
            // literal (a local, a signal, a call, ...).
            let idx = access.iter().find_map(|a| match a {
                program_structure::ir::AccessType::ArrayAccess(i) if !matches!(i.as_ref(), Number(..)) => Some(i.as_ref()),
                _ => None,
            });
            match idx {
                None => "Access".to_string(),
                Some(i) => {
                    let kind = match i {
                        Variable { .. } | Access { .. } => {
                            if i.meta().type_knowledge().is_signal() {
                                "signal"
                            } else if i.meta().type_knowledge().is_local() {
                                "local"
                            } else {
                                "other"
                            }
                        }
                        Call { .. } => "call",
                        _ => "expr",
                    };
                    format!("Access[index={kind}:{}]", b(i))
                }
            }
        }
        Update { rhe, .. } => format!("Update[rhe={}]", b(rhe)),
        _ => expr_coordinate(e),
    }
}

/// For an update node: the claimed bound of the statement that defined the previous version of
/// the array (`none` = defined without a claim, `undefined` = never assigned).
fn previous_version_claim(cfg: &Cfg, e: &Expression) -> String {
    let Expression::Update { var, .. } = e else { return String::new() };
    for block in cfg.iter() {
        for stmt in block.iter() {
            if let Statement::Substitution { var: v, rhe, .. } = stmt {
                if v == var {
                    return match bound_of(rhe) {
                        Some(0) => "prev=const".into(),
                        Some(1) => "prev=lin".into(),
                        Some(2) => "prev=quad".into(),
                        _ => "prev=none".into(),
                    };
                }
            }
        }
    }
    "prev=undefined".into()
}

pub fn audit_cfg(cfg: &Cfg, field: &Field, src: &str, case: &Value, params_vary: bool, tag: &str) -> DegAudit {
    let mut out = DegAudit { violations: Vec::new(), claims: 0, lines_compared: 0, lines_skipped: 0 };
    'lines: for base in BASES {
        for dir in DIRS {
            // Four points on the line.
            let mut traces: Vec<Vec<(usize, u8, BigUint)>> = Vec::new();
            let mut paths: Vec<Vec<usize>> = Vec::new();
            let mut ok = true;
            for t in 0..4u64 {
                let world = LineWorld { p: field.p.clone(), base, dir, t, params_vary };
                let mut obs = DegreeTrace { trace: Vec::new() };
                let mut machine = Machine::new(cfg, field, &world, 400);
                machine.signals_independent = true;
                let stop = machine.run(&mut obs);
                if !matches!(stop, Stop::Finished | Stop::Returned) {
                    if std::env::var("VERIF_DEBUG").is_ok() {
                        eprintln!("[C07] line base {base:?} dir {dir:?} t {t}: {stop:?}");
                    }
                    ok = false;
                    break;
                }
                traces.push(obs.trace);
                paths.push(machine.path.clone());
            }
            if !ok || paths.iter().any(|p| p != &paths[0]) {
                out.lines_skipped += 1;
                continue;
            }
            let n = traces[0].len();
            if traces.iter().any(|tr| tr.len() != n) {
                out.lines_skipped += 1;
                continue;
            }
            out.lines_compared += 1;
            for i in 0..n {
                let (addr, bound, _) = traces[0][i];
                if traces.iter().any(|tr| tr[i].0 != addr) {
                    continue;
                }
                out.claims += 1;
                let v: Vec<&BigUint> = traces.iter().map(|tr| &tr[i].2).collect();
                let p = &field.p;
                // (d+1)-th finite difference with binomial coefficients, in the field.
                let diff: BigUint = match bound {
                    0 => (v[1] + p - v[0]) % p,
                    1 => (v[2] + v[0] + (p - (BigUint::from(2u32) * v[1]) % p)) % p,
                    _ => {
                        let three = BigUint::from(3u32);
                        let pos = (v[3] + &three * v[1]) % p;
                        let neg = (&three * v[2] + v[0]) % p;
                        (pos + p - neg) % p
                    }
                };
                if !diff.is_zero() {
                    let node = find_node(cfg, addr).unwrap_or_else(|| "phi".to_string());
                    let mut coordinate = node.rsplit_once(" @@").map(|(_, c)| c.to_string()).unwrap_or_else(|| "Phi".into());
                    if coordinate.starts_with("Update") {
                        if let Some(e) = find_expr(cfg, addr) {
                            coordinate = format!("{coordinate}[{}]", previous_version_claim(cfg, e));
                        }
                    }
                    let bound_name = ["constant", "linear", "quadratic"][bound as usize];
                    out.violations.push(Violation {
                        signature: format!("degree/{coordinate}/claimed<={bound_name}{tag}"),
                        what: format!(
                            "node `{node}` is claimed to have degree <= {bound_name}, but along base {base:?} + t*{dir:?} its values {:?} have a non-zero finite difference of order {}",
                            v.iter().map(|x| x.to_string()).collect::<Vec<_>>(),
                            bound + 1
                        ),
                        case: case.clone(),
                        expected: format!("a polynomial of degree <= {bound_name} in the signals"),
                        observed: format!("finite difference {diff}\n{src}\n{}", super::cfgcheck::dump_cfg(cfg)),
                    });
                    break 'lines;
                }
            }
        }
    }
    out
}

pub fn audit_source(src: &str, field: &Field, case: &Value, params_vary: bool) -> Option<DegAudit> {
    match pipe::lift(src, &pipe::curve_of("BN254")) {
        Ok((cfg, _)) => Some(audit_cfg(&cfg, field, src, case, params_vary, "")),
        Err(_) => None,
    }
}

// ---------------------------------------------------------------------------------------------
// Operator table

pub const OPERANDS: [&str; 22] = [
    "3", "n", "k", "in", "in2", "in * in", "in * in * in2", "c.out", "arr[0]", "arr[n]", "la[0]", "seven()", "inc(in)", "cube(in)",
    // elements selected by a signal: a table of constants, an array of signals
    "lc[in]", "arr[in]",
    // a signal that is assigned a compile-time constant is still an indeterminate
    "sc",
    // two-dimensional table of constants: literal index first, signal later, and the reverse
    "lc2[0][in]", "lc2[in][1]",
    // an index whose own degree the analysis cannot bound (a call on a signal)
    "lc[inc(in)]",
    // calls with two arguments, constant first / signal first
    "mulf(2, in)", "mulf(in, 2)",
];
pub const SMALL_OPERANDS: [&str; 5] = ["3", "n", "in", "in2", "in * in"];
pub const INFIX: [&str; 20] = [
    "*", "/", "+", "-", "**", "\\", "%", "<<", ">>", "<=", ">=", "<", ">", "==", "!=", "||", "&&", "|", "&", "^",
];
pub const PREFIX: [&str; 3] = ["-", "!", "~"];

pub fn template_with(expr: &str) -> String {
    format!(
        "template T(n) {{\n    signal input in;\n    signal input in2;\n    signal input arr[4];\n    signal output out;\n    component c = Sub();\n    var k = 2;\n    var la[2];\n    la[0] = in;\n    la[1] = 3;\n    var lc[8] = [5, 7, 11, 2, 3, 13, 1, 8];\n    signal sc;\n    sc <== 2;\n    var lc2[2][4] = [[5, 7, 11, 2], [3, 1, 4, 1]];\n    out <-- {expr};\n}}\n"
    )
}

pub const F_OPERANDS: [&str; 11] =
    ["3", "n", "k", "a", "b", "a * a", "a * a * b", "la[0]", "seven()", "inc(a)", "cube(a)"];
pub const F_SMALL_OPERANDS: [&str; 5] = ["3", "n", "a", "b", "a * a"];

pub fn function_with(expr: &str) -> String {
    // In functions the parameters are the indeterminates.
    format!("function f(a, b) {{\n    var n = 2;\n    var k = 2;\n    var la[2];\n    la[0] = a;\n    la[1] = 3;\n    return {expr};\n}}\n")
}

pub fn table_exprs(depth2: bool, function: bool) -> Vec<String> {
    let mut v = Vec::new();
    let operands: &[&str] = if function { &F_OPERANDS } else { &OPERANDS };
    let small: &[&str] = if function { &F_SMALL_OPERANDS } else { &SMALL_OPERANDS };
    let conds: [&str; 3] = if function { ["n > 0", "a > 0", "n"] } else { ["n > 0", "in > 0", "n"] };
    for op in INFIX {
        for a in operands {
            for b in operands {
                v.push(format!("({a}) {op} ({b})"));
            }
        }
    }
    for op in PREFIX {
        for a in operands {
            v.push(format!("{op}({a})"));
        }
    }
    for c in conds {
        for a in operands {
            for b in operands {
                v.push(format!("({c}) ? ({a}) : ({b})"));
            }
        }
    }
    if depth2 {
        for op1 in INFIX {
            for op2 in ["*", "+", "-", "/"] {
                for a in small {
                    for b in small {
                        for c in small {
                            v.push(format!("(({a}) {op1} ({b})) {op2} ({c})"));
                            v.push(format!("({c}) {op2} (({a}) {op1} ({b}))"));
                        }
                    }
                }
            }
        }
        for op1 in PREFIX {
            for op2 in ["*", "+"] {
                for a in small {
                    for c in small {
                        v.push(format!("({op1}({a})) {op2} ({c})"));
                    }
                }
            }
        }
    }
    v
}

// ---------------------------------------------------------------------------------------------
// Merging sweep

pub const MG_ATOMS: usize = 12;
pub const MG_CONDS: usize = 2;

struct MergeFiller {
    atoms: Vec<usize>,
    conds: Vec<usize>,
    ai: usize,
    ci: usize,
    loops: usize,
}

impl Filler for MergeFiller {
    fn atom(&mut self) -> Atom {
        let c = self.atoms.get(self.ai).copied().unwrap_or(0);
        self.ai += 1;
        match c {
            0 => Atom::assign("x", "in"),
            1 => Atom::assign("x", "x * in"),
            2 => Atom::assign("x", "2"),
            3 => Atom::assign("la[0]", "cube(in)"),
            4 => Atom::assign("la[1]", "1"),
            5 => Atom::new("out <-- x", vec![Ev::Assign("out <-- x".into())]),
            6 => Atom::new("mid <-- la[0]", vec![Ev::Assign("mid <-- la[0]".into())]),
            7 => Atom::assign("x", "x + in2"),
            8 => Atom::assign("la[0]", "in * in * in2"),
            // calls whose argument is a (possibly loop-carried, hence unbounded) variable
            9 => Atom::assign("la[0]", "cube(x)"),
            10 => Atom::assign("x", "inc(x) * in"),
            // a table of constants indexed by a (possibly loop-carried) local
            _ => Atom::new("mid <-- lc[x]", vec![Ev::Assign("mid <-- lc[x]".into())]),
        }
    }
    fn cond(&mut self, _is_loop: bool) -> Cond {
        let c = self.conds.get(self.ci).copied().unwrap_or(0);
        self.ci += 1;
        match c {
            0 => Cond::new("n > 0"),
            _ => Cond::new("k < 1"),
        }
    }
    fn for_header(&mut self) -> (Atom, Cond, Atom) {
        self.loops += 1;
        self.ci += 1;
        let v = format!("i{}", self.loops);
        (
            Atom::decl_var_init(&v, "0"),
            Cond::new(&format!("{v} < n")),
            Atom::new(&format!("{v}++"), vec![Ev::Assign(format!("{v} = {v} + 1"))]),
        )
    }
}

pub fn merge_def(skel: &[Sk], atoms: &[usize], conds: &[usize]) -> Def {
    let mut filler = MergeFiller { atoms: atoms.to_vec(), conds: conds.to_vec(), ai: 0, ci: 0, loops: 0 };
    let mut body = vec![
        Node::Atom(Atom::new("signal input in", vec![])),
        Node::Atom(Atom::new("signal input in2", vec![])),
        Node::Atom(Atom::new("signal output out", vec![])),
        Node::Atom(Atom::new("signal mid", vec![])),
        Node::Atom(Atom::decl_var_init("x", "1")),
        Node::Atom(Atom::decl_var_init("k", "0")),
        Node::Atom(Atom::new("var la[2] = [0, 0]", vec![])),
        Node::Atom(Atom::new("var lc[8] = [5, 7, 11, 2, 3, 13, 1, 8]", vec![])),
    ];
    body.extend(instantiate(skel, &mut filler));
    body.push(Node::If {
        cond: Cond::new("n > 1"),
        then: Body::Braced(vec![Node::Atom(Atom::new("out <-- x + la[1]", vec![]))]),
        els: Some(Body::Braced(vec![Node::Atom(Atom::new("out <-- la[0] * x", vec![]))])),
    });
    Def { kind: DefKind::Template, name: "T".into(), params: vec!["n".into()], body }
}

pub fn run(run: &Run) {
    run.set_rule(
        "operator table: `out <-- E` in a template (signals/ports = indeterminates) and `return E` in a \
         function (parameters = indeterminates) for E = A op B, op A, C ? A : B over 22 operand classes \
         {literal, parameter, local constant, input signals, in*in, in*in*in2, component port, signal \
         array element with constant/parameter/signal index, local array element, constant tables (one and two dimensions) indexed by a signal, signal assigned a constant, calls with constant / \
         signal arguments} and (thorough) depth-2 combinations over 5 classes; merging sweep: \
         skeletons x 12 atoms {x=in, x=x*in, x=2, la[0]=cube(in), la[1]=1, out<--x, mid<--la[0], \
         x=x+in2, la[0]=in*in*in2, la[0]=cube(x), x=inc(x)*in, mid<--lc[x]} x 2 conditions; every node with a claimed bound is evaluated on 6 bases x 5 \
         directions x 4 points; non-trivial = at least one claim was tested on at least one line",
    );
    let (_, p) = real_primes().into_iter().next().unwrap();
    let field = Field::new(&p);
    let depth2 = run.tier == crate::infra::Tier::Thorough;
    let mut table: Vec<(bool, String)> = Vec::new();
    table.extend(table_exprs(depth2, false).into_iter().map(|e| (false, e)));
    table.extend(table_exprs(depth2, true).into_iter().map(|e| (true, e)));
    run.set_extra("table_expressions", json!(table.len()));
    let claims_by_form = [std::sync::atomic::AtomicU64::new(0), std::sync::atomic::AtomicU64::new(0)];
    par_each(&table, |i, (function, e)| {
        let (form, src) = if *function { ("function", function_with(e)) } else { ("template", template_with(e)) };
        let case = json!({"kind": "table", "expr": e, "form": form});
        run.eval(1);
        run.watch(&case);
        match audit_source(&src, &field, &case, *function) {
            Some(audit) => {
                claims_by_form[*function as usize].fetch_add(audit.claims, std::sync::atomic::Ordering::Relaxed);
                if audit.claims > 0 {
                    run.nontrivial(1);
                }
                run.add_extra_count("claims_tested", audit.claims);
                run.add_extra_count("lines_compared", audit.lines_compared);
                run.add_extra_count("lines_skipped_path_differs_or_trap", audit.lines_skipped);
                if i % 307 == 0 {
                    run.outcome(&format!("table:{form}:claims>0={}", audit.claims > 0));
                    if run.want_sample() {
                        run.sample(json!({"program": src}));
                    }
                }
                run.violations(audit.violations);
            }
            None => run.outcome("table:not-lifted"),
        }
    });
    // A form of the table in which no claim at all was compared is a broken harness, not a pass.
    for (k, name) in ["template", "function"].iter().enumerate() {
        let n = claims_by_form[k].load(std::sync::atomic::Ordering::Relaxed);
        run.set_extra(&format!("table_claims_compared_{name}"), json!(n));
        if n == 0 {
            run.machinery_error(&format!("no degree claim was compared in the {name} half of the operator table"));
        }
    }
    let max = run.tier.pick(3, 4);
    let skels = enumerate(cf_opts(max));
    run.set_extra("merge_skeletons", json!(skels.len()));
    par_each(&skels, |i, skel| {
        let na: usize = skel.iter().map(|s| s.atoms()).sum();
        let nc: usize = skel.iter().map(|s| s.conds()).sum();
        for ac in 0..MG_ATOMS.pow(na as u32) {
            let atoms = digits(ac, MG_ATOMS, na);
            for cc in 0..MG_CONDS.pow(nc as u32) {
                let conds = digits(cc, MG_CONDS, nc);
                let case = json!({"kind": "merge", "max_stmts": max, "index": i, "atoms": atoms, "conds": conds});
                let src = print_def(&merge_def(skel, &atoms, &conds)).text;
                run.eval(1);
                run.watch(&case);
                match audit_source(&src, &field, &case, false) {
                    Some(audit) => {
                        if audit.claims > 0 {
                            run.nontrivial(1);
                        }
                        run.add_extra_count("claims_tested", audit.claims);
                        run.add_extra_count("lines_compared", audit.lines_compared);
                        run.add_extra_count("lines_skipped_path_differs_or_trap", audit.lines_skipped);
                        if (i + ac + cc) % 503 == 0 {
                            run.outcome(&format!("merge:claims>0={}", audit.claims > 0));
                        }
                        run.violations(audit.violations);
                    }
                    None => run.outcome("merge:not-lifted"),
                }
            }
        }
    });
    // Route B: the same oracle on the CFG the real runner builds from a file, every 3rd expression.
    {
        let root = crate::infra::work_dir("c07");
        let slice: Vec<&(bool, String)> = table.iter().step_by(3).collect();
        par_each(&slice, |_, (function, e)| {
            let (form, src) = if *function { ("function", function_with(e)) } else { ("template", template_with(e)) };
            // The runner needs the instantiated template to exist.
            let src = format!("{src}template Sub() {{\n    signal input in;\n    signal output out;\n    out <== in;\n}}\n{}", crate::refsem::interp::HELPER_SOURCE);
            let case = json!({"kind": "table-runner", "expr": e, "form": form});
            run.watch(&case);
            let dir = root.join(format!("{:?}", std::thread::current().id()).replace(|c: char| !c.is_ascii_alphanumeric(), ""));
            run.eval(1);
            if let Ok(cfg) = pipe::lift_via_runner(&src, &dir, if *function { "f" } else { "T" }, *function, false) {
                let audit = audit_cfg(&cfg, &field, &src, &case, *function, "/runner");
                run.add_extra_count("claims_tested_via_runner", audit.claims);
                run.violations(audit.violations);
            }
        });
        let _ = std::fs::remove_dir_all(&root);
    }
    run.assume("one-sided oracle: a vanishing finite difference proves nothing; unsound claims whose witness needs values outside the grid are missed");
    run.assume("every signal and component port is an independent indeterminate (signal reads never see earlier assignments)");
}

pub fn replay(case: &Value) -> Vec<Violation> {
    let (_, p) = real_primes().into_iter().next().unwrap();
    let field = Field::new(&p);
    match case["kind"].as_str() {
        Some("table-runner") => {
            let e = case["expr"].as_str().unwrap_or("in");
            let function = case["form"].as_str() == Some("function");
            let src = if function { function_with(e) } else { template_with(e) };
            let src = format!("{src}template Sub() {{\n    signal input in;\n    signal output out;\n    out <== in;\n}}\n{}", crate::refsem::interp::HELPER_SOURCE);
            let root = crate::infra::work_dir("c07-replay");
            let out = match pipe::lift_via_runner(&src, &root, if function { "f" } else { "T" }, function, false) {
                Ok(cfg) => audit_cfg(&cfg, &field, &src, case, function, "/runner").violations,
                Err(_) => Vec::new(),
            };
            let _ = std::fs::remove_dir_all(&root);
            out
        }
        Some("table") => {
            let e = case["expr"].as_str().unwrap_or("in");
            let (src, vary) = if case["form"].as_str() == Some("function") {
                (function_with(e), true)
            } else {
                (template_with(e), false)
            };
            audit_source(&src, &field, case, vary).map(|a| a.violations).unwrap_or_default()
        }
        Some("merge") => {
            let max = case["max_stmts"].as_u64().unwrap_or(3) as usize;
            let index = case["index"].as_u64().unwrap_or(0) as usize;
            let get = |k: &str| -> Vec<usize> {
                case[k].as_array().map(|a| a.iter().map(|v| v.as_u64().unwrap_or(0) as usize).collect()).unwrap_or_default()
            };
            let skels = enumerate(cf_opts(max));
            match skels.get(index) {
                Some(skel) => {
                    let src = print_def(&merge_def(skel, &get("atoms"), &get("conds"))).text;
                    audit_source(&src, &field, case, false).map(|a| a.violations).unwrap_or_default()
                }
                None => Vec::new(),
            }
        }
        _ => Vec::new(),
    }
}

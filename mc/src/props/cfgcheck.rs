//! Shared pieces of the control-flow checks (C12, C13): the marker program space and the
//! structural CFG invariants.
use crate::infra::Violation;
use crate::refsem::dom::{dominance, Graph};
use crate::refsem::walk::is_phi;
use crate::space::prog::{Atom, Cond, Def, DefKind, Ev, Node, Printed, Role, SpanKind};
use crate::space::skel::{instantiate, Filler, Sk};
use program_structure::cfg::Cfg;
use program_structure::ir::Statement;
use serde_json::Value;

/// Atoms are unique markers `x = k`; conditions and loop variables are unique too.
pub struct MarkerFiller {
    pub next: usize,
    /// Atom alphabet index per atom slot (mixed radix digits), consumed left to right.
    pub atom_choice: Vec<usize>,
    pub atom_pos: usize,
    pub is_function: bool,
    /// Per `for` loop: 0 = `for (var i = 0; ...)`, 1 = `for (x = k; ...)` (assignment initialiser).
    pub for_choice: Vec<usize>,
    pub for_pos: usize,
}

pub const MARKER_ATOM_KINDS: usize = 5;
/// Atom kinds of the route-A sweeps that vary atoms (5 is sugar and needs the runner).
pub const ROUTE_A_KINDS: [usize; 6] = [0, 1, 2, 3, 4, 6];
/// Header forms of a `for`: declaration, assignment, declaration of two names with initialisers.
pub const FOR_FORMS: usize = 3;

impl MarkerFiller {
    pub fn new(is_function: bool, atom_choice: Vec<usize>) -> MarkerFiller {
        MarkerFiller { next: 1, atom_choice, atom_pos: 0, is_function, for_choice: Vec::new(), for_pos: 0 }
    }
    fn fresh(&mut self) -> usize {
        let k = self.next;
        self.next += 1;
        k
    }
}

impl Filler for MarkerFiller {
    fn atom(&mut self) -> Atom {
        let k = self.fresh();
        let choice = self.atom_choice.get(self.atom_pos).copied().unwrap_or(0);
        self.atom_pos += 1;
        match choice {
            0 => Atom::assign("x", &k.to_string())
                .with_idents(vec![("x", Role::Write)]),
            1 => {
                let mut a = Atom::new(&format!("x += {k}"), vec![Ev::Assign(format!("x = x + {k}"))]);
                a = a.with_idents(vec![("x", Role::Write)]);
                a
            }
            2 => Atom::new("x--", vec![Ev::Assign("x = x - 1".to_string())])
                .with_idents(vec![("x", Role::Write)]),
            4 => {
                // One declaration statement, two names, both initialised (the second from the
                // first): four statements whose order matters.
                let (a, b) = (format!("a{k}"), format!("b{k}"));
                Atom::new(
                    &format!("var {a} = x, {b} = {a} + 1"),
                    vec![Ev::Decl(format!("var {a}")), Ev::Assign(format!("{a} = x")), Ev::Decl(format!("var {b}")), Ev::Assign(format!("{b} = {a} + 1"))],
                )
                .with_idents(vec![(&a, Role::Decl), ("x", Role::Read), (&b, Role::Decl), (&a, Role::Read)])
            }
            6 => {
                // A declaration without initialiser, wherever the skeleton puts it (the compiler
                // wants signals outside loops; the analyser accepts them anywhere).
                if self.is_function {
                    Atom::new(&format!("var u{k}"), vec![Ev::Decl(format!("var u{k}"))]).with_idents(vec![(&format!("u{k}"), Role::Decl)])
                } else {
                    Atom::new(&format!("signal t{k}"), vec![Ev::Decl(format!("signal t{k}"))])
                }
            }
            5 => {
                // Sugar (templates through the real runner only): a tuple declaration with
                // initialisers expands to declarations and assignments in source order.
                let (a, b) = (format!("p{k}"), format!("q{k}"));
                Atom::new(
                    &format!("var ({a}, {b}) = (x, {k})"),
                    vec![Ev::Decl(format!("var {a}")), Ev::Decl(format!("var {b}")), Ev::Assign(format!("{a} = x")), Ev::Assign(format!("{b} = {k}"))],
                )
            }
            _ => {
                if self.is_function {
                    Atom::ret("x").with_idents(vec![("x", Role::Read)])
                } else {
                    // Templates have no return: use a constraint-free log instead.
                    let mut a = Atom::new("assert(x)", vec![Ev::Assert("assert(x)".to_string())]);
                    a.span_includes_semi = true;
                    a.with_idents(vec![("x", Role::Read)])
                }
            }
        }
    }
    fn cond(&mut self, is_loop: bool) -> Cond {
        let k = self.fresh();
        if is_loop {
            Cond::new(&format!("x < {k}")).with_reads(&["x"])
        } else {
            Cond::new(&format!("n > {k}")).with_reads(&["n"])
        }
    }
    fn for_header(&mut self) -> (Atom, Cond, Atom) {
        let k = self.fresh();
        let form = self.for_choice.get(self.for_pos).copied().unwrap_or(0);
        self.for_pos += 1;
        if form == 1 {
            let init = Atom::assign("x", &k.to_string()).with_idents(vec![("x", Role::Write)]);
            let cond = Cond::new("x < n").with_reads(&["x", "n"]);
            let step = Atom::new("x++", vec![Ev::Assign("x = x + 1".to_string())])
                .with_idents(vec![("x", Role::Write)]);
            return (init, cond, step);
        }
        let v = format!("i{k}");
        if form == 2 {
            let w = format!("j{k}");
            let init = Atom::new(
                &format!("var {v} = 0, {w} = {v} + 1"),
                vec![Ev::Decl(format!("var {v}")), Ev::Assign(format!("{v} = 0")), Ev::Decl(format!("var {w}")), Ev::Assign(format!("{w} = {v} + 1"))],
            )
            .with_idents(vec![(&v, Role::Decl), (&w, Role::Decl), (&v, Role::Read)]);
            let cond = Cond::new(&format!("{v} < n")).with_reads(&[&v, "n"]);
            let step = Atom::new(&format!("{v}++"), vec![Ev::Assign(format!("{v} = {v} + 1"))]).with_idents(vec![(&v, Role::Write)]);
            return (init, cond, step);
        }
        let init = Atom::decl_var_init(&v, "0").with_idents(vec![(&v, Role::Decl)]);
        let cond = Cond::new(&format!("{v} < n")).with_reads(&[&v, "n"]);
        let step = Atom::new(&format!("{v}++"), vec![Ev::Assign(format!("{v} = {v} + 1"))])
            .with_idents(vec![(&v, Role::Write)]);
        (init, cond, step)
    }
}

/// Builds the marker program for a skeleton. With `prologue` the body starts with `var x = 0;`;
/// without it `x` is a parameter and the skeleton's first statement is the definition's first
/// statement (a loop or branch may then open the entry block).
pub fn marker_def(skel: &[Sk], is_function: bool, atom_choice: Vec<usize>, prologue: bool) -> Def {
    marker_def_for(skel, is_function, atom_choice, prologue, Vec::new())
}

pub fn marker_def_for(
    skel: &[Sk],
    is_function: bool,
    atom_choice: Vec<usize>,
    prologue: bool,
    for_choice: Vec<usize>,
) -> Def {
    let mut filler = MarkerFiller::new(is_function, atom_choice);
    filler.for_choice = for_choice;
    let mut body = Vec::new();
    if prologue {
        body.push(Node::Atom(Atom::decl_var_init("x", "0").with_idents(vec![("x", Role::Decl)])));
    }
    body.extend(instantiate(skel, &mut filler));
    Def {
        kind: if is_function { DefKind::Function } else { DefKind::Template },
        name: if is_function { "f".to_string() } else { "T".to_string() },
        params: if prologue { vec!["n".to_string()] } else { vec!["n".to_string(), "x".to_string()] },
        body,
    }
}

pub fn graph_of_cfg(cfg: &Cfg) -> Graph {
    let n = cfg.len();
    let mut succ = vec![0u64; n];
    for block in cfg.iter() {
        for s in block.successors() {
            if *s < 64 && block.index() < n {
                succ[block.index()] |= 1 << s;
            }
        }
    }
    Graph::from_succ(succ)
}

pub fn edges_of(cfg: &Cfg) -> Vec<(usize, Vec<usize>, Vec<usize>)> {
    cfg.iter()
        .map(|b| {
            let mut s: Vec<usize> = b.successors().iter().copied().collect();
            let mut p: Vec<usize> = b.predecessors().iter().copied().collect();
            s.sort();
            p.sort();
            (b.index(), s, p)
        })
        .collect()
}

pub fn dump_cfg(cfg: &Cfg) -> String {
    let mut out = String::new();
    for b in cfg.iter() {
        let mut s: Vec<usize> = b.successors().iter().copied().collect();
        let mut p: Vec<usize> = b.predecessors().iter().copied().collect();
        s.sort();
        p.sort();
        out.push_str(&format!("block {} depth {} preds {:?} succs {:?}\n", b.index(), b.loop_depth(), p, s));
        for stmt in b.iter() {
            out.push_str(&format!("    {stmt:?}\n"));
        }
    }
    out
}

/// The structural invariants of C12, through public accessors only.
pub fn check_wellformed(cfg: &Cfg, printed: Option<&Printed>, phase: &str, case: &Value) -> Vec<Violation> {
    let mut out = Vec::new();
    let mut push = |sig: &str, what: String, expected: String, observed: String| {
        out.push(Violation {
            signature: format!("{sig}/{phase}"),
            what,
            case: case.clone(),
            expected,
            observed,
        });
    };
    let n = cfg.len();
    if n == 0 || n > 64 {
        push("size", format!("CFG has {n} blocks"), "1..=64 blocks".into(), format!("{n}"));
        return out;
    }
    // Block indices are positions.
    for (pos, block) in cfg.iter().enumerate() {
        if block.index() != pos {
            push(
                "index",
                format!("block at position {pos} has index {}", block.index()),
                "index == position".into(),
                dump_cfg(cfg),
            );
            return out;
        }
    }
    let entry = cfg.entry_block();
    if !entry.predecessors().is_empty() || entry.index() != 0 {
        push(
            "entry-has-predecessor",
            "block 0 must be the entry and have no predecessor".into(),
            "no predecessor of block 0".into(),
            dump_cfg(cfg),
        );
    }
    let mut edges_ok = true;
    for block in cfg.iter() {
        for s in block.successors() {
            match cfg.get_basic_block(*s) {
                None => {
                    edges_ok = false;
                    push(
                        "dangling-edge",
                        format!("block {} has successor {} which does not exist", block.index(), s),
                        "successors are existing blocks".into(),
                        dump_cfg(cfg),
                    );
                }
                Some(t) => {
                    if !t.predecessors().contains(&block.index()) {
                        push(
                            "mirror",
                            format!("edge {}->{} is not mirrored in the predecessor set", block.index(), s),
                            "successor and predecessor sets mirror each other".into(),
                            dump_cfg(cfg),
                        );
                    }
                }
            }
        }
        for p in block.predecessors() {
            match cfg.get_basic_block(*p) {
                None => {
                    edges_ok = false;
                    push(
                        "dangling-edge",
                        format!("block {} has predecessor {} which does not exist", block.index(), p),
                        "predecessors are existing blocks".into(),
                        dump_cfg(cfg),
                    );
                }
                Some(t) => {
                    if !t.successors().contains(&block.index()) {
                        push(
                            "mirror",
                            format!("edge {}->{} is not mirrored in the successor set", p, block.index()),
                            "successor and predecessor sets mirror each other".into(),
                            dump_cfg(cfg),
                        );
                    }
                }
            }
        }
        // Branch statements.
        let stmts = block.statements();
        let mut has_branch = false;
        for (i, stmt) in stmts.iter().enumerate() {
            if let Statement::IfThenElse { true_index, false_index, .. } = stmt {
                if i + 1 != stmts.len() {
                    push(
                        "branch-not-last",
                        format!("block {} has a branch statement before its end", block.index()),
                        "a branch occurs only as the last statement".into(),
                        dump_cfg(cfg),
                    );
                } else {
                    has_branch = true;
                }
                let mut targets = vec![*true_index];
                if let Some(f) = false_index {
                    targets.push(*f);
                }
                for t in targets {
                    if cfg.get_basic_block(t).is_none() || !block.successors().contains(&t) {
                        push(
                            "branch-target",
                            format!(
                                "branch target {t} of block {} is missing or not a successor",
                                block.index()
                            ),
                            "targets exist and are successors".into(),
                            dump_cfg(cfg),
                        );
                    }
                }
            }
        }
        let max = if has_branch { 2 } else { 1 };
        if block.successors().len() > max {
            push(
                "too-many-successors",
                format!(
                    "block {} has {} successors ({} a branch)",
                    block.index(),
                    block.successors().len(),
                    if has_branch { "with" } else { "without" }
                ),
                format!("at most {max}"),
                dump_cfg(cfg),
            );
        }
    }
    if !edges_ok {
        return out;
    }
    let g = graph_of_cfg(cfg);
    if !g.all_reachable() {
        push(
            "unreachable-block",
            "some block is not reachable from the entry".into(),
            "all blocks reachable from block 0".into(),
            dump_cfg(cfg),
        );
        return out;
    }
    // i dom j => i <= j, with dominance computed by definition; and the CFG's own dominator
    // accessor agrees with the definition.
    let d = dominance(&g);
    for j in 0..n {
        for i in 0..n {
            if d.dom[j] >> i & 1 == 1 && i > j {
                push(
                    "dominator-order",
                    format!("block {i} dominates block {j} but {i} > {j}"),
                    "i dom j implies i <= j".into(),
                    dump_cfg(cfg),
                );
            }
        }
        let block = cfg.get_basic_block(j).unwrap();
        let mut own: Vec<usize> = cfg.get_dominators(block).iter().map(|b| b.index()).collect();
        own.sort();
        if own != crate::refsem::dom::mask_to_vec(d.dom[j]) {
            push(
                "dominators-accessor",
                format!("Cfg::get_dominators({j}) differs from dominance by definition"),
                format!("{:?}", crate::refsem::dom::mask_to_vec(d.dom[j])),
                format!("{own:?}"),
            );
        }
    }
    // Loop depth.
    if let Some(printed) = printed {
        for block in cfg.iter() {
            for stmt in block.iter() {
                if is_phi(stmt) {
                    continue;
                }
                let loc = stmt.meta().file_location();
                let kind_ok = |k: SpanKind| match stmt {
                    Statement::IfThenElse { .. } => {
                        matches!(k, SpanKind::If | SpanKind::While | SpanKind::For)
                    }
                    _ => k == SpanKind::Atom,
                };
                let rec = printed.spans.iter().find(|s| {
                    kind_ok(s.kind)
                        && s.range.start == loc.start
                        && (s.range.end == loc.end || s.end_with_semi == loc.end)
                });
                match rec {
                    None => push(
                        "MACHINERY-unmatched-statement",
                        format!("IR statement `{stmt}` at {loc:?} matches no generated statement"),
                        "every IR statement carries the span of a source statement".into(),
                        format!("{}\n{}", printed.text, dump_cfg(cfg)),
                    ),
                    Some(rec) => {
                        if rec.loop_depth != block.loop_depth() {
                            push(
                                "loop-depth",
                                format!(
                                    "block {} records loop depth {} but holds `{stmt}` which is inside {} loops",
                                    block.index(),
                                    block.loop_depth(),
                                    rec.loop_depth
                                ),
                                format!("loop depth {}", rec.loop_depth),
                                format!("{}\n{}", printed.text, dump_cfg(cfg)),
                            );
                        }
                    }
                }
            }
        }
    }
    out
}

//! C09 — `value never read` / `no side effect` / `parameter never used` claims are true: for every
//! such finding the value written at the flagged statement (or the flagged parameter) is replaced
//! by other values, at all dynamic instances or at a single one, in every run of the reference
//! interpreter over the real SSA CFG; nothing the tool counts as an effect may change.
use super::valspace::digits;
use crate::infra::{par_each, work_dir, Run, Violation};
use crate::refsem::field::{real_primes, Field};
use crate::refsem::interp::{key_of, Machine, Observer, Stop, TableWorld, Val};
use crate::space::prog::{print_def, Atom, Body, Cond, Def, DefKind, Ev, Node};
use crate::space::skel::{enumerate, instantiate, Filler, Sk, SkelOpts};
use crate::sut::runner::{self, finding_of};
use num_bigint_dig::BigUint;
use num_traits::One;
use program_structure::cfg::Cfg;
use program_structure::constants::Curve;
use program_structure::ir::{AccessType, Expression, SignalType, Statement, VariableType};
use serde_json::{json, Value};
use std::collections::{HashMap, HashSet};
use std::path::Path;

pub const T_ATOMS: usize = 12;
pub const F_ATOMS: usize = 9;
pub const CONDS: usize = 2;

struct EffFiller {
    atoms: Vec<usize>,
    conds: Vec<usize>,
    ai: usize,
    ci: usize,
    k: usize,
    function: bool,
}

impl Filler for EffFiller {
    fn atom(&mut self) -> Atom {
        let c = self.atoms.get(self.ai).copied().unwrap_or(0);
        self.ai += 1;
        self.k += 1;
        let k = self.k;
        if self.function {
            match c {
                0 => Atom::assign("x", "n"),
                1 => Atom::assign("x", "m + 1"),
                2 => Atom::assign("y", "x + 1"),
                3 => Atom::assign("a[0]", "x"),
                4 => Atom::assign("y", "a[1]"),
                5 => {
                    let mut a = Atom::new("assert(x)", vec![Ev::Assert("assert(x)".into())]);
                    a.span_includes_semi = true;
                    a
                }
                6 => Atom::new(&format!("var b{k}[x]"), vec![Ev::Decl(format!("var b{k}"))]),
                7 => Atom::assign("z", "y * 2"),
                // the only use of `x` is to choose the element that is written
                _ => Atom::assign("a[x]", "7"),
            }
        } else {
            match c {
                0 => Atom::assign("x", "n"),
                1 => Atom::assign("x", "in"),
                2 => Atom::assign("y", "x + 1"),
                3 => Atom::assign("a[0]", "x"),
                4 => Atom::assign("y", "a[1]"),
                5 => Atom::new("out <== y", vec![Ev::Assign("out <== y".into())]),
                6 => Atom::new("mid <-- x", vec![Ev::Assign("mid <-- x".into())]),
                7 => {
                    let mut a = Atom::new("mid === in", vec![Ev::ConstraintEq("mid === in".into())]);
                    a.span_includes_semi = true;
                    a
                }
                8 => {
                    let mut a = Atom::new("assert(x)", vec![Ev::Assert("assert(x)".into())]);
                    a.span_includes_semi = true;
                    a
                }
                9 => Atom::new(&format!("var b{k}[x]"), vec![Ev::Decl(format!("var b{k}"))]),
                10 => Atom::assign("z", "y * 2"),
                _ => Atom::assign("a[x]", "7"),
            }
        }
    }
    fn cond(&mut self, _is_loop: bool) -> Cond {
        let c = self.conds.get(self.ci).copied().unwrap_or(0);
        self.ci += 1;
        match c {
            0 => Cond::new("x > 0"),
            _ => Cond::new("n > 0"),
        }
    }
    fn for_header(&mut self) -> (Atom, Cond, Atom) {
        self.k += 1;
        self.ci += 1;
        let v = format!("i{}", self.k);
        (
            Atom::decl_var_init(&v, "0"),
            Cond::new(&format!("{v} < n")),
            Atom::new(&format!("{v}++"), vec![Ev::Assign(format!("{v} = {v} + 1"))]),
        )
    }
}

pub fn build(skel: &[Sk], atoms: &[usize], conds: &[usize], function: bool) -> Def {
    let mut filler = EffFiller { atoms: atoms.to_vec(), conds: conds.to_vec(), ai: 0, ci: 0, k: 0, function };
    let mut body = Vec::new();
    if !function {
        body.push(Node::Atom(Atom::new("signal input in", vec![])));
        body.push(Node::Atom(Atom::new("signal output out", vec![])));
        body.push(Node::Atom(Atom::new("signal mid", vec![])));
    }
    body.push(Node::Atom(Atom::decl_var_init("x", "0")));
    body.push(Node::Atom(Atom::decl_var_init("y", "0")));
    body.push(Node::Atom(Atom::decl_var_init("z", "0")));
    body.push(Node::Atom(Atom::new("var a[2] = [0, 0]", vec![])));
    body.extend(instantiate(skel, &mut filler));
    if function {
        body.push(Node::Atom(Atom::ret("y")));
    }
    Def {
        kind: if function { DefKind::Function } else { DefKind::Template },
        name: "M".into(),
        params: vec!["n".into(), "m".into()],
        body,
    }
}

fn opts(max_stmts: usize) -> SkelOpts {
    SkelOpts { max_stmts, max_depth: 3, allow_for: true, allow_bare: false, allow_block: false, allow_empty_body: false }
}

// ---------------------------------------------------------------------------------------------
// Observable trace and perturbation

struct Effects<'a> {
    exported: &'a HashSet<String>,
    /// Perturb writes at the statement with this location (and variable): (start, end, name).
    target: Option<(usize, usize, String)>,
    /// None = every dynamic instance; Some(j) = only instance j.
    instance: Option<usize>,
    replacement: usize,
    field: &'a Field,
    seen_instances: usize,
    trace: Vec<String>,
}

fn mentions_exported(e: &Expression, exported: &HashSet<String>) -> bool {
    use Expression::*;
    match e {
        Variable { name, .. } => exported.contains(name.name()),
        Access { var, access, .. } => {
            exported.contains(var.name())
                || access.iter().any(|a| match a {
                    AccessType::ArrayAccess(i) => mentions_exported(i, exported),
                    _ => false,
                })
        }
        InfixOp { lhe, rhe, .. } => mentions_exported(lhe, exported) || mentions_exported(rhe, exported),
        PrefixOp { rhe, .. } => mentions_exported(rhe, exported),
        SwitchOp { cond, if_true, if_false, .. } => {
            mentions_exported(cond, exported) || mentions_exported(if_true, exported) || mentions_exported(if_false, exported)
        }
        Call { args, .. } => args.iter().any(|a| mentions_exported(a, exported)),
        InlineArray { values, .. } => values.iter().any(|a| mentions_exported(a, exported)),
        Update { rhe, .. } => mentions_exported(rhe, exported),
        Number(_, _) | Phi { .. } => false,
    }
}

fn show(v: &Val) -> String {
    match v {
        Val::Num(n) => n.to_string(),
        Val::Arr(items) => format!("[{}]", items.iter().map(show).collect::<Vec<_>>().join(",")),
    }
}

impl<'a> Observer for Effects<'a> {
    fn write(&mut self, _block: usize, _index: usize, stmt: &Statement, value: Val) -> Val {
        let Some((start, end, name)) = &self.target else { return value };
        let Statement::Substitution { var, meta, .. } = stmt else { return value };
        if meta.start() != *start || meta.end() != *end || var.name() != name {
            return value;
        }
        let j = self.seen_instances;
        self.seen_instances += 1;
        if let Some(only) = self.instance {
            if only != j {
                return value;
            }
        }
        match value {
            Val::Num(w) => {
                let p = &self.field.p;
                Val::Num(match self.replacement {
                    0 => BigUint::from(0u32),
                    1 => BigUint::one(),
                    2 => (w + BigUint::one()) % p,
                    _ => p - BigUint::one(),
                })
            }
            other => other,
        }
    }
    fn branch(&mut self, block: usize, taken: bool) {
        self.trace.push(format!("branch@{block}={taken}"));
    }
    fn returned(&mut self, value: &Val) {
        self.trace.push(format!("return={}", show(value)));
    }
    fn constraint(&mut self, stmt: &Statement, lhs: &Val, rhs: &Val) {
        if let Statement::ConstraintEquality { lhe, rhe, .. } = stmt {
            if mentions_exported(lhe, self.exported) || mentions_exported(rhe, self.exported) {
                self.trace.push(format!("constraint@{}:{}=={}", stmt.meta().start(), show(lhs), show(rhs)));
            }
        }
    }
    fn assert(&mut self, stmt: &Statement, value: &Val) {
        self.trace.push(format!("assert@{}={}", stmt.meta().start(), show(value)));
    }
    fn dimension(&mut self, stmt: &Statement, dims: &[usize]) {
        if !dims.is_empty() {
            self.trace.push(format!("dimension@{}={dims:?}", stmt.meta().start()));
        }
    }
    fn signal_written(&mut self, path: &str, value: &Val, stmt: &Statement) {
        let head = path.split(|c| c == '[' || c == '.').next().unwrap_or(path);
        if self.exported.contains(head) {
            self.trace.push(format!("signal:{path}={}", show(value)));
            // `<==` also adds a constraint mentioning the exported signal.
            if let Statement::Substitution { op: program_structure::ir::AssignOp::AssignConstraintSignal, .. } = stmt {
                self.trace.push(format!("constraint:{path}=={}", show(value)));
            }
        } else if let Statement::Substitution { op: program_structure::ir::AssignOp::AssignConstraintSignal, rhe, .. } = stmt {
            // A constraint `mid <== e` on an intermediate signal counts only if e mentions an
            // exported signal.
            if mentions_exported(rhe, self.exported) {
                self.trace.push(format!("constraint:{path}=={}", show(value)));
            }
        }
    }
}

fn run_trace(cfg: &Cfg, field: &Field, values: &HashMap<String, BigUint>, exported: &HashSet<String>, target: Option<(usize, usize, String)>, instance: Option<usize>, replacement: usize) -> Option<Vec<String>> {
    let world = TableWorld { values: values.clone(), default: BigUint::from(3u32) };
    let mut obs = Effects { exported, target, instance, replacement, field, seen_instances: 0, trace: Vec::new() };
    let mut machine = Machine::new(cfg, field, &world, 400);
    match machine.run(&mut obs) {
        Stop::Finished | Stop::Returned => Some(obs.trace),
        // Traps, fuel and malformed graphs: the run is discarded.
        _ => None,
    }
}

pub struct Stats {
    pub findings: usize,
    pub perturbed_runs: u64,
}

pub fn check(def: &Def, dir: &Path, case: &Value) -> (Vec<Violation>, Stats) {
    let mut out = Vec::new();
    let mut stats = Stats { findings: 0, perturbed_runs: 0 };
    let src = print_def(def).text;
    let files = runner::write_project(dir, &[("p.circom", &src)]);
    let Ok(mut loaded) = runner::load(&files, &[], Curve::Bn254) else { return (out, stats) };
    let lib = loaded.runner.file_library().clone();
    let function = def.kind == DefKind::Function;
    let cfg = match crate::infra::catch(|| if function { loaded.runner.take_function("M") } else { loaded.runner.take_template("M") }) {
        Ok(Ok(cfg)) => cfg,
        _ => return (out, stats),
    };
    let reports = match crate::infra::catch(|| {
        let mut all = Vec::new();
        for pass in program_analysis::get_analysis_passes() {
            all.append(&mut pass(&mut loaded.runner, &cfg));
        }
        all
    }) {
        Ok(r) => r,
        Err(p) => {
            out.push(Violation { signature: p.signature(), what: "analysis pass panicked".into(), case: case.clone(), expected: "completes".into(), observed: src.clone() });
            return (out, stats);
        }
    };
    let (_, p) = real_primes().into_iter().next().unwrap();
    let field = Field::new(&p);
    let exported: HashSet<String> = cfg
        .declarations()
        .iter()
        .filter(|(_, d)| matches!(d.variable_type(), VariableType::Signal(SignalType::Input | SignalType::Output, _)))
        .map(|(n, _)| n.name().clone())
        .collect();
    let params: Vec<String> = cfg.parameters().iter().map(|p| p.name().clone()).collect();
    let _ = key_of;
    let alphabet = [BigUint::from(0u32), BigUint::one(), BigUint::from(2u32), &field.p - BigUint::one()];
    // Base valuations over (n, m, in).
    let mut valuations: Vec<HashMap<String, BigUint>> = Vec::new();
    for n in &alphabet {
        for m in &alphabet[..2] {
            for i in &alphabet {
                let mut v = HashMap::new();
                v.insert("n".to_string(), n.clone());
                v.insert("m".to_string(), m.clone());
                v.insert("in".to_string(), i.clone());
                valuations.push(v);
                if function {
                    break;
                }
            }
        }
    }
    for report in &reports {
        let f = finding_of(report, &lib);
        let kind = if f.message.contains("is assigned a value, but this value is never read") {
            "never-read"
        } else if f.message.contains("is not used in witness or constraint generation") || f.message.contains("is not used to compute the return value") {
            "no-side-effect"
        } else if f.message.contains("is never read") && f.message.contains("parameter") {
            "parameter-never-read"
        } else {
            continue;
        };
        let Some(label) = f.primary.first() else { continue };
        // The variable the message talks about.
        let Some(name) = f.message.split('`').nth(1).map(|s| s.split('[').next().unwrap_or(s).to_string()) else { continue };
        stats.findings += 1;
        let is_param = params.contains(&name) && (kind == "parameter-never-read" || f.message.contains("parameter"));
        'valuations: for base in &valuations {
            let Some(reference) = run_trace(&cfg, &field, base, &exported, None, None, 0) else { continue };
            if is_param {
                for alt in &alphabet {
                    let mut v = base.clone();
                    v.insert(name.clone(), alt.clone());
                    stats.perturbed_runs += 1;
                    if let Some(trace) = run_trace(&cfg, &field, &v, &exported, None, None, 0) {
                        if trace != reference {
                            out.push(violation(kind, &f.message, &name, &src, case, &reference, &trace, &format!("parameter {name} = {alt} instead of {}", base[&name])));
                            break 'valuations;
                        }
                    }
                }
            } else {
                for instance in [None, Some(0), Some(1), Some(2)] {
                    for replacement in 0..4 {
                        stats.perturbed_runs += 1;
                        let target = Some((label.start, label.end, name.clone()));
                        if let Some(trace) = run_trace(&cfg, &field, base, &exported, target, instance, replacement) {
                            if trace != reference {
                                out.push(violation(
                                    kind,
                                    &f.message,
                                    &name,
                                    &src,
                                    case,
                                    &reference,
                                    &trace,
                                    &format!("value written at bytes {}..{} replaced (instance {instance:?}, replacement #{replacement}) with n={} in={}", label.start, label.end, base["n"], base["in"]),
                                ));
                                break 'valuations;
                            }
                        }
                    }
                }
            }
        }
    }
    (out, stats)
}

fn violation(kind: &str, message: &str, name: &str, src: &str, case: &Value, reference: &[String], trace: &[String], how: &str) -> Violation {
    let first = reference.iter().zip(trace.iter()).position(|(a, b)| a != b).unwrap_or(reference.len().min(trace.len()));
    let effect = trace.get(first).or(reference.get(first)).map(|s| s.split(|c| c == '@' || c == ':' || c == '=').next().unwrap_or("").to_string()).unwrap_or_default();
    Violation {
        signature: format!("{kind}/effect-{effect}"),
        what: format!("the tool says: \"{message}\" — but changing that value changes an effect ({how})"),
        case: case.clone(),
        expected: format!("unchanged effects: {reference:?}"),
        observed: format!("{trace:?}\nvariable `{name}`\n{src}"),
    }
}

// ---------------------------------------------------------------------------------------------
// Nest sweep: two accumulators updated in sibling / nested bodies of a two-level nest and both
// observed afterwards (shapes beyond the statement bound of the skeleton sweep).

pub const NEST_OUTER: usize = 4;
pub const NEST_INNER: usize = 3;

fn nest_atom(code: usize, function: bool) -> Option<Node> {
    let a = match code {
        0 => return None,
        1 => Atom::assign("x", if function { "x + m" } else { "x + in" }),
        2 => Atom::assign("y", "y + 1"),
        3 => Atom::assign("y", "x"),
        _ => Atom::assign("x", "y * 2"),
    };
    Some(Node::Atom(a))
}

/// `atoms` = [before inner, inner then/body, inner else, after inner, outer else].
pub fn nest_def(outer: usize, inner: usize, cond: usize, atoms: &[usize], function: bool) -> Def {
    let at = |i: usize| nest_atom(atoms.get(i).copied().unwrap_or(0), function);
    let body_of = |nodes: Vec<Option<Node>>| -> Body {
        let mut v: Vec<Node> = nodes.into_iter().flatten().collect();
        if v.is_empty() {
            v.push(Node::Atom(Atom::assign("z", "z + 1")));
        }
        Body::Braced(v)
    };
    let inner_cond = Cond::new(["n > 1", "x > 0"][cond % 2]);
    let inner_node = match inner % NEST_INNER {
        0 => Node::If { cond: inner_cond, then: body_of(vec![at(1)]), els: None },
        1 => Node::If { cond: inner_cond, then: body_of(vec![at(1)]), els: Some(body_of(vec![at(2)])) },
        _ => Node::For {
            init: Atom::decl_var_init("j", "0"),
            cond: Cond::new("j < 2"),
            step: Atom::new("j++", vec![Ev::Assign("j = j + 1".into())]),
            body: body_of(vec![at(1)]),
        },
    };
    let mut nest = vec![at(0), Some(inner_node), at(3)];
    let outer_node = match outer % NEST_OUTER {
        0 => Node::For {
            init: Atom::decl_var_init("i", "0"),
            cond: Cond::new("i < n"),
            step: Atom::new("i++", vec![Ev::Assign("i = i + 1".into())]),
            body: body_of(nest),
        },
        1 => Node::If { cond: Cond::new("n > 0"), then: body_of(nest), els: None },
        2 => Node::If { cond: Cond::new("n > 0"), then: body_of(nest), els: Some(body_of(vec![at(4)])) },
        _ => {
            nest.push(Some(Node::Atom(Atom::assign("k", "k + 1"))));
            Node::While { cond: Cond::new("k < n"), body: body_of(nest) }
        }
    };
    let mut body = Vec::new();
    if !function {
        body.push(Node::Atom(Atom::new("signal input in", vec![])));
        body.push(Node::Atom(Atom::new("signal output out", vec![])));
    }
    for v in ["x", "y", "z", "k"] {
        body.push(Node::Atom(Atom::decl_var_init(v, "0")));
    }
    body.push(outer_node);
    if function {
        body.push(Node::Atom(Atom::ret("x * 16 + y")));
    } else {
        body.push(Node::Atom(Atom::new("out <== x + y", vec![Ev::Assign("out <== x + y".into())])));
    }
    Def {
        kind: if function { DefKind::Function } else { DefKind::Template },
        name: "M".into(),
        params: vec!["n".into(), "m".into()],
        body,
    }
}

pub fn nest_cases(tier: crate::infra::Tier) -> Vec<Value> {
    // quick: 4 atoms in 4 positions (nothing before the inner statement); thorough: 5 atoms, 5 positions
    let (radix, before) = tier.pick((4usize, false), (5usize, true));
    let mut v = Vec::new();
    for function in [false, true] {
        for outer in 0..NEST_OUTER {
            for inner in 0..NEST_INNER {
                for cond in 0..(if inner == 2 { 1 } else { 2 }) {
                    for a0 in 0..(if before { radix } else { 1 }) {
                        for a1 in 0..radix {
                            for a2 in 0..(if inner == 1 { radix } else { 1 }) {
                                for a3 in 0..radix {
                                    for a4 in 0..(if outer == 2 { radix } else { 1 }) {
                                        v.push(json!({"kind": "nest", "outer": outer, "inner": inner, "cond": cond, "atoms": [a0, a1, a2, a3, a4], "function": function}));
                                    }
                                }
                            }
                        }
                    }
                }
            }
        }
    }
    v
}

fn nest_def_of(case: &Value) -> Def {
    let atoms: Vec<usize> = case["atoms"].as_array().map(|a| a.iter().map(|v| v.as_u64().unwrap_or(0) as usize).collect()).unwrap_or_default();
    nest_def(
        case["outer"].as_u64().unwrap_or(0) as usize,
        case["inner"].as_u64().unwrap_or(0) as usize,
        case["cond"].as_u64().unwrap_or(0) as usize,
        &atoms,
        case["function"].as_bool().unwrap_or(false),
    )
}

pub fn run(run: &Run) {
    let max = run.tier.pick(3, 4);
    let skels = enumerate(opts(max));
    run.set_rule(&format!(
        "every skeleton <= {max} statements (braced bodies, for) x every assignment of 11 template atoms {{x=n, x=in, \
         y=x+1, a[0]=x, y=a[1], out<==y, mid<--x, mid===in, assert(x), var b[x], z=y*2}} / 8 function atoms \
         x 2 conditions {{x>0, n>0}}; for every never-read / no-side-effect / unused-parameter finding: \
         plus the collision sweep (C10's declare/assign/read programs over {{x, x_0, y}}, blocks and for loops, <= 2 (3) statements) and the nest sweep: {{for, if, if-else, while}} x inner {{if, if-else, for}} x 2 inner conditions x \
         atoms {{skip, x=x+in|m, y=y+1, y=x, (x=y*2)}} before / in / after the inner statement, x and y both \
         observed afterwards; 16 (8) valuations x replacement values {{0,1,w+1,p-1}} x {{all instances, instance 0,1,2}}; \
         non-trivial = program with at least one such finding"
    ));
    run.set_extra("skeletons", json!(skels.len()));
    let root = work_dir("c09");
    par_each(&skels, |i, skel| {
        let na: usize = skel.iter().map(|s| s.atoms()).sum();
        let nc: usize = skel.iter().map(|s| s.conds()).sum();
        let dir = root.join(format!("{:?}", std::thread::current().id()).replace(|c: char| !c.is_ascii_alphanumeric(), ""));
        for function in [false, true] {
            let radix = if function { F_ATOMS } else { T_ATOMS };
            for ac in 0..radix.pow(na as u32) {
                let atoms = digits(ac, radix, na);
                for cc in 0..CONDS.pow(nc as u32) {
                    let conds = digits(cc, CONDS, nc);
                    let case = json!({"kind": "effects", "max_stmts": max, "index": i, "atoms": atoms, "conds": conds, "function": function});
                    run.watch(&case);
                    let def = build(skel, &atoms, &conds, function);
                    let (vs, stats) = check(&def, &dir, &case);
                    run.eval(1);
                    if stats.findings > 0 {
                        run.nontrivial(1);
                    }
                    run.add_extra_count("findings_tested", stats.findings as u64);
                    run.add_extra_count("perturbed_runs", stats.perturbed_runs);
                    if (i + ac + cc) % 503 == 0 {
                        run.outcome(&format!("findings={}", stats.findings.min(5)));
                        if run.want_sample() && stats.findings >= 2 {
                            run.sample(json!({"program": print_def(&def).text, "findings_tested": stats.findings}));
                        }
                    }
                    run.violations(vs);
                }
            }
        }
    });
    let nests = nest_cases(run.tier);
    run.set_extra("nest_programs", json!(nests.len()));
    par_each(&nests, |i, case| {
        run.watch(case);
        let dir = root.join(format!("{:?}", std::thread::current().id()).replace(|c: char| !c.is_ascii_alphanumeric(), ""));
        let def = nest_def_of(case);
        let (vs, stats) = check(&def, &dir, case);
        run.eval(1);
        if stats.findings > 0 {
            run.nontrivial(1);
        }
        run.add_extra_count("findings_tested", stats.findings as u64);
        run.add_extra_count("perturbed_runs", stats.perturbed_runs);
        if i % 211 == 0 {
            run.outcome(&format!("nest:findings={}", stats.findings.min(5)));
        }
        run.violations(vs);
    });
    // Collision sweep: the declare / assign / read programs of C10 over the colliding identifiers
    // {x, x_0, y} (shadowing declarations next to a variable literally named `x_0`), judged with
    // the same perturbation oracle.
    {
        use super::c10;
        let max = run.tier.pick(2, 3);
        let skels = enumerate(SkelOpts { max_stmts: max, max_depth: 3, allow_for: true, allow_bare: false, allow_block: true, allow_empty_body: false });
        run.set_extra("collision_skeletons", json!(skels.len()));
        par_each(&skels, |i, skel| {
            let na: usize = skel.iter().map(|s| s.atoms()).sum();
            let nf: usize = skel.iter().map(|s| s.fors()).sum();
            let dir = root.join(format!("{:?}", std::thread::current().id()).replace(|c: char| !c.is_ascii_alphanumeric(), ""));
            for ac in 0..c10::ATOMS.pow(na as u32) {
                let atoms = digits(ac, c10::ATOMS, na);
                for fc in 0..(1usize << nf) {
                    let loops = digits(fc, 2, nf);
                    for template in [false, true] {
                        let case = json!({"kind": "collision", "max_stmts": max, "index": i, "atoms": atoms, "loops": loops, "template": template});
                        run.watch(&case);
                        let def = c10::build(skel, &atoms, &loops, 0, template);
                        let (vs, stats) = check(&def, &dir, &case);
                        run.eval(1);
                        if stats.findings > 0 {
                            run.nontrivial(1);
                        }
                        run.add_extra_count("findings_tested", stats.findings as u64);
                        run.add_extra_count("perturbed_runs", stats.perturbed_runs);
                        run.violations(vs);
                    }
                }
            }
        });
    }
    let _ = std::fs::remove_dir_all(&root);
    run.assume("effects are exactly those the property lists: values assigned to the template's own input/output signals, both sides of constraints mentioning such a signal, assertion arguments, the return value, array dimensions, branch decisions; a value that only reaches a sub-component port is not an effect");
    run.assume("runs that trap in either execution are discarded");
}

pub fn replay(case: &Value) -> Vec<Violation> {
    let root = work_dir("c09-replay");
    let get = |k: &str| -> Vec<usize> {
        case[k].as_array().map(|a| a.iter().map(|v| v.as_u64().unwrap_or(0) as usize).collect()).unwrap_or_default()
    };
    if case["kind"].as_str() == Some("collision") {
        let max = case["max_stmts"].as_u64().unwrap_or(2) as usize;
        let skels = enumerate(SkelOpts { max_stmts: max, max_depth: 3, allow_for: true, allow_bare: false, allow_block: true, allow_empty_body: false });
        let get = |k: &str| -> Vec<usize> { case[k].as_array().map(|a| a.iter().map(|v| v.as_u64().unwrap_or(0) as usize).collect()).unwrap_or_default() };
        let out = match skels.get(case["index"].as_u64().unwrap_or(0) as usize) {
            Some(skel) => check(&super::c10::build(skel, &get("atoms"), &get("loops"), 0, case["template"].as_bool().unwrap_or(false)), &root, case).0,
            None => Vec::new(),
        };
        let _ = std::fs::remove_dir_all(&root);
        return out;
    }
    if case["kind"].as_str() == Some("nest") {
        let out = check(&nest_def_of(case), &root, case).0;
        let _ = std::fs::remove_dir_all(&root);
        return out;
    }
    let max = case["max_stmts"].as_u64().unwrap_or(3) as usize;
    let skels = enumerate(opts(max));
    let out = match skels.get(case["index"].as_u64().unwrap_or(0) as usize) {
        Some(skel) => check(&build(skel, &get("atoms"), &get("conds"), case["function"].as_bool().unwrap_or(false)), &root, case).0,
        None => Vec::new(),
    };
    let _ = std::fs::remove_dir_all(&root);
    out
}

#[allow(dead_code)]
fn unused(_: &Body) {}

//! C05 — comments are transparent. Part (a): the real comment stripper (`preprocess`, hook H1)
//! against the reference automaton on every string up to a length bound over a 7-symbol
//! alphabet. Part (b) (metamorphic transparency through the pipeline) lives in `c05b`.
use crate::infra::{catch, par_for, Run, Violation};
use crate::refsem::lexer::{comment_mask, Stripped};
use serde_json::{json, Value};

pub const SIGMA: [&str; 7] = ["/", "*", "\n", "a", " ", "\"", "é"];

pub fn string_of(mut code: u64, len: usize) -> String {
    let mut s = String::new();
    for _ in 0..len {
        s.push_str(SIGMA[(code % 7) as usize]);
        code /= 7;
    }
    s
}

fn class_of(src: &str, reference: &Stripped) -> String {
    // Root-cause coordinate: the shape of the first block comment's tail.
    match reference {
        Stripped::Unterminated(_) => "unterminated".to_string(),
        Stripped::Ok(_) => {
            if src.contains("**/") {
                "close-after-star".to_string()
            } else {
                "other".to_string()
            }
        }
    }
}

pub fn check_string(src: &str, case: &Value) -> Vec<Violation> {
    let mut out = Vec::new();
    let reference = comment_mask(src.as_bytes());
    let got = catch(|| parser::verif::preprocess(src, 0));
    let class = class_of(src, &reference);
    match (got, &reference) {
        (Err(p), _) => out.push(Violation {
            signature: p.signature(),
            what: "the comment stripper panicked".into(),
            case: case.clone(),
            expected: format!("{reference:?}"),
            observed: format!("{}:{} {}", p.file, p.line, p.message),
        }),
        (Ok(Err(_)), Stripped::Unterminated(_)) => {}
        (Ok(Err(report)), Stripped::Ok(_)) => out.push(Violation {
            signature: format!("strip/error-on-terminated/{class}"),
            what: "the stripper reports an error although every block comment is closed".into(),
            case: case.clone(),
            expected: "stripped text".into(),
            observed: format!("error: {}", report.message()),
        }),
        (Ok(Ok(_)), Stripped::Unterminated(open)) => out.push(Violation {
            signature: "strip/unclosed-comment-accepted".into(),
            what: format!("block comment opened at byte {open} is never closed but no error is reported"),
            case: case.clone(),
            expected: "an error for the unclosed block comment".into(),
            observed: "accepted".into(),
        }),
        (Ok(Ok(text)), Stripped::Ok(mask)) => {
            let bytes = src.as_bytes();
            let got = text.as_bytes();
            let mut problem = None;
            if got.len() != bytes.len() {
                problem = Some(format!("length {} instead of {}", got.len(), bytes.len()));
            } else {
                for i in 0..bytes.len() {
                    if mask[i] {
                        let ok = got[i] == b' ' || (bytes[i] == b'\n' && got[i] == b'\n');
                        if !ok {
                            problem = Some(format!("comment byte {i} not blanked"));
                            break;
                        }
                    } else if got[i] != bytes[i] {
                        problem = Some(format!("code byte {i} changed from {:?} to {:?}", bytes[i] as char, got[i] as char));
                        break;
                    }
                }
            }
            if let Some(problem) = problem {
                out.push(Violation {
                    signature: format!("strip/wrong-output/{class}"),
                    what: format!("stripped text differs from the reference: {problem}"),
                    case: case.clone(),
                    expected: format!("{:?}", crate::refsem::lexer::blank_comments(src)),
                    observed: format!("{text:?}"),
                });
            }
        }
    }
    out
}

pub fn run(run: &Run) {
    let max_len = run.tier.pick(8usize, 10usize);
    run.set_rule(&format!(
        "every string of length 0..={max_len} over {{/ * newline a blank quote e-acute}} through the real \
         preprocess and the reference automaton; non-trivial = the string contains a comment opener; \
         states = (reference state, previous symbol) pairs reached, transitions = symbols consumed"
    ));
    let mut total_transitions = 0u64;
    for len in 0..=max_len {
        let n = 7u64.pow(len as u32);
        total_transitions += n * len as u64;
        par_for(n, 1 << 14, |code| {
            let src = string_of(code, len);
            let case = json!({"kind": "string", "len": len, "code": code});
            run.watch_num("string", len as u64, code);
            run.eval(1);
            if src.contains("//") || src.contains("/*") {
                run.nontrivial(1);
            }
            let vs = check_string(&src, &case);
            if vs.is_empty() {
                if code % 100_003 == 0 {
                    let reference = comment_mask(src.as_bytes());
                    run.outcome(&format!("{}", matches!(reference, Stripped::Ok(_))));
                    if run.want_sample() && src.contains("/*") {
                        run.sample(json!({"input": src, "reference": format!("{:?}", crate::refsem::lexer::blank_comments(&src))}));
                    }
                }
            } else {
                run.violations(vs);
            }
        });
    }
    // 3 reference states x 8 (previous symbol or none): all are reached by strings of length <= 3.
    run.add_states(3 * 8);
    run.add_transitions(total_transitions);
    run.add_traces(run.evaluations.load(std::sync::atomic::Ordering::Relaxed));
    super::c05b::run(run);
}

pub fn replay(case: &Value) -> Vec<Violation> {
    match case["kind"].as_str() {
        Some("string") => {
            let len = case["len"].as_u64().or(case["n"].as_u64()).unwrap_or(0) as usize;
            let code = case["code"].as_u64().unwrap_or(0);
            check_string(&string_of(code, len), case)
        }
        _ => super::c05b::replay(case),
    }
}

//! C08 — every `<--` signal assignment is reported exactly once. Templates whose body is every
//! sequence of up to 2 (3) items from a 20-form alphabet in three contexts, plus the same bodies
//! as function-like and custom templates; findings obtained through the real parser, desugarer,
//! lifter and pass (route B), compared with the statements the generator emitted and with an
//! independent token scan.
use crate::infra::{par_for, work_dir, Run, Violation};
use crate::space::tokens::tokenize;
use crate::sut::runner::{self, finding_of, Finding};
use program_structure::constants::Curve;
use serde_json::{json, Value};
use std::ops::Range;
use std::path::Path;

pub const FORMS: usize = 22;
pub const CONTEXTS: usize = 3;

#[derive(Clone, Debug)]
pub struct Item {
    /// Spans (in the file) of `<--` / `-->` statements this item contains, with the number of
    /// findings allowed at that span (min, max) and the assigned signal's printed form.
    pub arrows: Vec<(Range<usize>, usize, usize, String)>,
    /// Spans of constraint statements (`<==`, `===`) with the signal accesses they mention.
    pub constraints: Vec<(Range<usize>, Vec<String>)>,
    /// `<--` tokens of the item beyond one per entry of `arrows` (statements that hold several).
    pub more_tokens: usize,
}

pub struct Built {
    pub text: String,
    pub items: Vec<Item>,
}

/// Appends one item to the template body.
fn emit(text: &mut String, form: usize, ctx: usize, k: usize, items: &mut Vec<Item>) {
    let mut item = Item { arrows: Vec::new(), constraints: Vec::new(), more_tokens: 0 };
    let open = match ctx {
        0 => String::new(),
        1 => "    if (n > 1) {\n".to_string(),
        _ => format!("    for (var i{k} = 0; i{k} < 2; i{k}++) {{\n"),
    };
    text.push_str(&open);
    let indent = if ctx == 0 { "    " } else { "        " };
    let iv = if ctx == 2 { format!("i{k}") } else { "0".to_string() };
    // e: alternate between a quadratic and a non-quadratic right-hand side.
    let e = if k % 2 == 0 { "in + 1".to_string() } else { "in * in * in".to_string() };
    let mut stmt = |text: &mut String, s: &str, semi_in_span: bool| -> Range<usize> {
        text.push_str(indent);
        let start = text.len();
        text.push_str(s);
        let mut end = text.len();
        text.push(';');
        if semi_in_span {
            end += 1;
        }
        text.push('\n');
        start..end
    };
    match form {
        0 => {
            let r = stmt(text, &format!("s <-- {e}"), false);
            item.arrows.push((r, 1, 1, "s".into()));
        }
        1 => {
            let r = stmt(text, &format!("{e} --> s"), false);
            item.arrows.push((r, 1, 1, "s".into()));
        }
        2 => {
            let r = stmt(text, &format!("a[0] <-- {e}"), false);
            item.arrows.push((r, 1, 1, "a[0]".into()));
        }
        3 => {
            let r = stmt(text, &format!("a[{iv}] <-- {e}"), false);
            item.arrows.push((r, 1, 1, format!("a[{iv}]")));
        }
        4 => {
            let r = stmt(text, &format!("c.in <-- {e}"), false);
            item.arrows.push((r, 1, 1, "c.in".into()));
        }
        5 => {
            let r = stmt(text, &format!("cs[{iv}].in <-- {e}"), false);
            item.arrows.push((r, 1, 1, format!("cs[{iv}].in")));
        }
        6 => {
            let r = stmt(text, &format!("signal t{k} <-- {e}"), false);
            item.arrows.push((r, 1, 1, format!("t{k}")));
        }
        7 => {
            let r = stmt(text, &format!("(s, t2) <-- ({e}, in)"), false);
            item.arrows.push((r, 1, 2, "s,t2".into()));
        }
        8 => {
            let r = stmt(text, &format!("(s, _) <-- Sub2()({e})"), false);
            item.arrows.push((r, 1, 1, "s,_".into()));
        }
        9 => {
            // anonymous component whose input is assigned with `<--`: anchored at the call
            text.push_str(indent);
            let start = text.len();
            text.push_str("t2 <== ");
            let call_start = text.len();
            text.push_str(&format!("Sub()(in <-- {e})"));
            let end = text.len();
            text.push_str(";\n");
            item.arrows.push((call_start..end, 1, 1, "<anonymous>.in".into()));
            item.constraints.push((start..end, vec!["t2".into()]));
        }
        10 => {
            let r = stmt(text, &format!("s <== {e}"), false);
            item.constraints.push((r, vec!["s".into(), "in".into()]));
        }
        11 => {
            let r = stmt(text, &format!("s === {e}"), true);
            item.constraints.push((r, vec!["s".into(), "in".into()]));
        }
        12 => {
            let r = stmt(text, &format!("a[0] === {e}"), true);
            item.constraints.push((r, vec!["a[0]".into(), "in".into()]));
        }
        14 => {
            // one declaration, two `<--` initialisers: two assignments at one statement
            let r = stmt(text, &format!("signal p{k} <-- {e}, q{k} <-- in"), false);
            item.arrows.push((r, 2, 2, format!("p{k},q{k}")));
            item.more_tokens = 1;
        }
        15 => {
            let r = stmt(text, &format!("signal (p{k}, q{k}) <-- ({e}, in)"), false);
            item.arrows.push((r, 1, 2, format!("p{k},q{k}")));
        }
        16 => {
            // anonymous component with two inputs assigned with `<--`
            text.push_str(indent);
            let start = text.len();
            text.push_str("t2 <== ");
            let call_start = text.len();
            text.push_str(&format!("Mul2()(a <-- {e}, b <-- in)"));
            let end = text.len();
            text.push_str(";\n");
            item.arrows.push((call_start..end, 2, 2, "<anonymous>.a,<anonymous>.b".into()));
            item.more_tokens = 1;
            item.constraints.push((start..end, vec!["t2".into()]));
        }
        // Array elements whose index is a binary expression over the parameter: the secondary
        // locations must distinguish `a[n + 1]` from `a[n - 1]`.
        17 => {
            let r = stmt(text, &format!("a[n + 1] <-- {e}"), false);
            item.arrows.push((r, 1, 1, "a[n + 1]".into()));
        }
        18 => {
            let r = stmt(text, &format!("a[n - 1] === {e}"), true);
            item.constraints.push((r, vec!["a[n - 1]".into(), "in".into()]));
        }
        19 => {
            let r = stmt(text, &format!("a[n + 1] === {e}"), true);
            item.constraints.push((r, vec!["a[n + 1]".into(), "in".into()]));
        }
        // right-pointing arrow with a tuple destination; `parallel` anonymous component with
        // named `<--` inputs (only in sequences of length <= 2, see `run`)
        20 => {
            let r = stmt(text, &format!("({e}, in) --> (s, t2)"), false);
            item.arrows.push((r, 1, 2, "s,t2".into()));
        }
        21 => {
            text.push_str(indent);
            let start = text.len();
            text.push_str("t2 <== ");
            let call_start = text.len();
            text.push_str(&format!("parallel Mul2()(b <-- in, a <-- {e})"));
            let end = text.len();
            text.push_str(";\n");
            item.arrows.push((call_start..end, 2, 2, "<anonymous>.a,<anonymous>.b".into()));
            item.more_tokens = 1;
            item.constraints.push((start..end, vec!["t2".into()]));
        }
        _ => {
            let r = stmt(text, "s <-- in * in", false);
            item.arrows.push((r, 1, 1, "s".into()));
        }
    }
    if ctx != 0 {
        text.push_str("    }\n");
    }
    items.push(item);
}

pub const SUPPORT: &str = "pragma circom 2.1.0;\ntemplate Sub() {\n    signal input in;\n    signal output out;\n    out <== in;\n}\ntemplate Sub2() {\n    signal input in;\n    signal output o1;\n    signal output o2;\n    o1 <== in;\n    o2 <== in;\n}\ntemplate Mul2() {\n    signal input a;\n    signal input b;\n    signal output out;\n    out <== a * b;\n}\n";

/// kind % 3: 0 template, 1 custom template, 2 parallel template; kind >= 3: the file also holds a
/// main component (the program path through the definition merger instead of the library path).
pub fn build(seq: &[(usize, usize)], kind: usize) -> Built {
    let with_main = kind >= 3;
    let kind = kind % 3;
    let mut text = String::from(SUPPORT);
    if kind == 1 {
        text = text.replacen("pragma circom 2.1.0;\n", "pragma circom 2.1.0;\npragma custom_templates;\n", 1);
    }
    text.push_str(["template M(n) {\n", "template custom M(n) {\n", "template parallel M(n) {\n"][kind]);
    text.push_str("    signal input in;\n    signal output s;\n    signal t2;\n    signal a[4];\n    component c = Sub();\n    component cs[2];\n");
    let mut items = Vec::new();
    for (k, (form, ctx)) in seq.iter().enumerate() {
        emit(&mut text, *form, *ctx, k, &mut items);
    }
    text.push_str("}\n");
    if with_main {
        text.push_str("component main = M(1);\n");
    }
    Built { text, items }
}

fn arrow_tokens(text: &str) -> usize {
    tokenize(text).iter().filter(|t| t.text == "<--" || t.text == "-->").count()
}

pub fn check(seq: &[(usize, usize)], kind: usize, dir: &Path, case: &Value) -> (Vec<Violation>, usize) {
    let mut out = Vec::new();
    let built = build(seq, kind);
    let generated: usize = built.items.iter().map(|i| i.arrows.len() + i.more_tokens).sum();
    // Independent count by token scan of the body of M.
    let body_start = built
        .text
        .find("template M(")
        .or_else(|| built.text.find("template custom M("))
        .or_else(|| built.text.find("template parallel M("))
        .unwrap_or(0);
    let scanned = arrow_tokens(&built.text[body_start..]);
    if scanned != generated {
        out.push(Violation {
            signature: "MACHINERY-arrow-count".into(),
            what: "generator and token scan disagree on the number of `<--` statements".into(),
            case: case.clone(),
            expected: format!("{generated}"),
            observed: format!("{scanned}\n{}", built.text),
        });
        return (out, generated);
    }
    let files = runner::write_project(dir, &[("m.circom", &built.text)]);
    let mut loaded = match runner::load(&files, &[], Curve::Bn254) {
        Ok(l) => l,
        Err(p) => {
            out.push(Violation { signature: p.signature(), what: "loading panicked".into(), case: case.clone(), expected: "loads".into(), observed: built.text.clone() });
            return (out, generated);
        }
    };
    let lib = loaded.runner.file_library().clone();
    let parse_findings: Vec<Finding> = loaded.parse_reports.iter().map(|r| finding_of(r, &lib)).collect();
    if parse_findings.iter().any(|f| f.level == "error") {
        out.push(Violation {
            signature: "MACHINERY-program-rejected".into(),
            what: "generated template is rejected by the parser / desugarer".into(),
            case: case.clone(),
            expected: "accepted".into(),
            observed: format!("{:?}\n{}", parse_findings.iter().map(|f| f.short()).collect::<Vec<_>>(), built.text),
        });
        return (out, generated);
    }
    let mut collector = runner::Collector::default();
    if let Err(p) = crate::infra::catch(|| loaded.runner.verif_analyze_template("M", &mut collector)) {
        out.push(Violation { signature: p.signature(), what: "analysis panicked".into(), case: case.clone(), expected: "completes".into(), observed: built.text.clone() });
        return (out, generated);
    }
    let findings: Vec<Finding> = collector.reports.iter().map(|r| finding_of(r, &lib)).collect();
    if findings.iter().any(|f| f.level == "error") {
        // The template did not lift: not judged here (C02).
        return (out, generated);
    }
    let arrows: Vec<&Finding> = findings.iter().filter(|f| f.id == "CS0005" || f.id == "CS0013").collect();
    let mut push = |sig: &str, what: String, expected: String, observed: String| {
        out.push(Violation { signature: sig.to_string(), what, case: case.clone(), expected, observed: format!("{observed}\n{}", built.text) });
    };
    if kind % 3 == 1 {
        if !arrows.is_empty() {
            push("custom-template-flagged", "signal assignment findings in a custom template".into(), "none".into(), format!("{:?}", arrows.iter().map(|f| f.short()).collect::<Vec<_>>()));
        }
        return (out, generated);
    }
    // Every arrow statement: number of findings anchored exactly there.
    let mut used = vec![false; arrows.len()];
    for item in &built.items {
        for (span, min, max, signal) in &item.arrows {
            let here: Vec<usize> = arrows
                .iter()
                .enumerate()
                .filter(|(_, f)| {
                    // A tuple assignment is reported per assigned element: the label lies inside
                    // the statement. Every other form is anchored at exactly the statement.
                    if signal.contains(',') {
                        f.primary.len() == 1 && span.start <= f.primary[0].start && f.primary[0].end <= span.end
                    } else {
                        f.primary.len() == 1 && f.primary[0].start == span.start && f.primary[0].end == span.end
                    }
                })
                .map(|(i, _)| i)
                .collect();
            for i in &here {
                used[*i] = true;
            }
            let form_text = &built.text[span.clone()];
            if here.len() < *min {
                push(
                    "missing",
                    format!("`{form_text}` assigns `{signal}` with `<--` but {} findings are anchored at it", here.len()),
                    format!("{min}..={max} findings at {span:?}"),
                    format!("{:?}", arrows.iter().map(|f| (f.id.clone(), f.primary.iter().map(|l| (l.start, l.end)).collect::<Vec<_>>())).collect::<Vec<_>>()),
                );
            } else if here.len() > *max {
                push(
                    "duplicate",
                    format!("`{form_text}` yields {} findings", here.len()),
                    format!("{min}..={max}"),
                    format!("{:?}", here.iter().map(|i| arrows[*i].short()).collect::<Vec<_>>()),
                );
            }
            // Secondary locations of `signal assignment` findings: exactly the constraint
            // statements that mention the assigned signal.
            for i in &here {
                let f = arrows[*i];
                if f.id != "CS0005" || signal.contains(',') {
                    continue;
                }
                let mut expected: Vec<(usize, usize)> = built
                    .items
                    .iter()
                    .flat_map(|it| it.constraints.iter())
                    .filter(|(_, mentions)| mentions.contains(signal))
                    .map(|(r, _)| (r.start, r.end))
                    .collect();
                expected.sort();
                expected.dedup();
                let mut got: Vec<(usize, usize)> = f.secondary.iter().map(|l| (l.start, l.end)).collect();
                got.sort();
                got.dedup();
                // Array elements indexed by a loop variable are compared textually by the tool
                // after SSA renaming; they are not judged.
                if signal.contains("[i") {
                    continue;
                }
                if got != expected {
                    push(
                        "secondary",
                        format!("the secondary locations of the finding for `{signal}` are not the constraint statements mentioning it"),
                        format!("{expected:?}"),
                        format!("{got:?}"),
                    );
                }
            }
        }
    }
    for (i, f) in arrows.iter().enumerate() {
        if !used[i] {
            push(
                "elsewhere",
                format!("a signal assignment finding is attached to something that is no `<--` statement of the template: {}", f.short()),
                "findings only at `<--` / `-->` statements".into(),
                format!("{:?}", f.primary.iter().map(|l| (l.start, l.end, l.text.clone())).collect::<Vec<_>>()),
            );
        }
    }
    (out, generated)
}

/// The same statements written inside a function must not yield such findings (functions cannot
/// assign signals, so the body uses the statement forms on variables; only the absence of the
/// two finding kinds is checked).
pub fn check_function(dir: &Path, case: &Value) -> Vec<Violation> {
    let text = "pragma circom 2.1.0;\nfunction F(n) {\n    var s = 0;\n    var a[4];\n    s = n + 1;\n    a[0] = n * n * n;\n    for (var i = 0; i < 2; i++) {\n        a[i] = s;\n    }\n    return s;\n}\n";
    let files = runner::write_project(dir, &[("f.circom", text)]);
    let mut out = Vec::new();
    if let Ok(mut loaded) = runner::load(&files, &[], Curve::Bn254) {
        let lib = loaded.runner.file_library().clone();
        let mut collector = runner::Collector::default();
        let _ = crate::infra::catch(|| loaded.runner.verif_analyze_function("F", &mut collector));
        let n = collector.reports.iter().map(|r| finding_of(r, &lib)).filter(|f| f.id == "CS0005" || f.id == "CS0013").count();
        if n > 0 {
            out.push(Violation { signature: "function-flagged".into(), what: "signal assignment findings in a function".into(), case: case.clone(), expected: "none".into(), observed: format!("{n}") });
        }
    }
    out
}

fn seq_of(mut code: u64, len: usize) -> Vec<(usize, usize)> {
    let mut v = Vec::new();
    for _ in 0..len {
        let d = (code % (FORMS * CONTEXTS) as u64) as usize;
        code /= (FORMS * CONTEXTS) as u64;
        v.push((d % FORMS, d / FORMS));
    }
    v
}

pub fn run(run: &Run) {
    let max_len = run.tier.pick(3usize, 4usize);
    run.set_rule(&format!(
        "templates whose body is every sequence of 1..={max_len} items from 22 forms {{s <-- e, e --> s, a[0] <-- e, \
         a[i] <-- e, c.in <-- e, cs[i].in <-- e, signal t <-- e, (s,t2) <-- (e,in), (s,_) <-- Sub2()(e), \
         t2 <== Sub()(in <-- e), s <== e, s === e, a[0] === e, signal p <-- e, q <-- in, signal (p,q) <-- (e,in), t2 <== Mul2()(a <-- e, b <-- in), a[n+1] <-- e, a[n-1] === e, a[n+1] === e, (e, in) --> (s, t2), t2 <== parallel Mul2()(b <-- in, a <-- e), s <-- in*in}} x contexts {{top, inside if, \
         inside for}} (at length 4 at most one item outside the top context), e alternating linear / cubic; plus every sequence of <= 2 items as parallel template and in a file with a main component, every \
         single item as custom template (with and without main), and a function; non-trivial = body with at least one `<--`"
    ));
    let root = work_dir("c08");
    let radix = (FORMS * CONTEXTS) as u64;
    for len in 1..=max_len {
        let n = radix.pow(len as u32);
        par_for(n, 16, |code| {
            let seq = seq_of(code, len);
            if len >= 3 && seq.iter().any(|(form, _)| *form == 20 || *form == 21) {
                // the two latest forms only in sequences of length <= 2
                return;
            }
            if len >= 4 && seq.iter().filter(|(_, ctx)| *ctx != 0).count() > 1 {
                // length 4 (thorough): at most one item inside an `if` / `for`
                return;
            }
            let case = json!({"kind": "sequence", "len": len, "code": code, "template": 0});
            run.watch(&case);
            let dir = root.join(format!("{:?}", std::thread::current().id()).replace(|c: char| !c.is_ascii_alphanumeric(), ""));
            let (vs, arrows) = check(&seq, 0, &dir, &case);
            run.eval(1);
            if arrows > 0 {
                run.nontrivial(1);
            }
            if code % 97 == 0 {
                run.outcome(&format!("arrows={arrows},violations={}", vs.len().min(2)));
                if run.want_sample() && arrows >= 2 {
                    run.sample(json!({"program": build(&seq, 0).text}));
                }
            }
            run.violations(vs);
            if len <= 2 {
                // custom / parallel templates, and every kind again in a file with a main component
                let kinds: &[usize] = if len == 1 { &[1, 2, 3, 4, 5] } else { &[2, 3] };
                for kind in kinds {
                    let case = json!({"kind": "sequence", "len": len, "code": code, "template": kind});
                    let (vs, _) = check(&seq, *kind, &dir, &case);
                    run.eval(1);
                    run.violations(vs);
                }
            }
        });
    }
    let dir = root.join("fn");
    run.eval(1);
    run.violations(check_function(&dir, &json!({"kind": "function"})));
    let _ = std::fs::remove_dir_all(&root);
    run.assume("a tuple assignment of k signals may yield 1..k findings at the statement (the property counts statements, the tool counts assigned signals)");
}

pub fn replay(case: &Value) -> Vec<Violation> {
    let root = work_dir("c08-replay");
    let out = match case["kind"].as_str() {
        Some("sequence") => {
            let seq = seq_of(case["code"].as_u64().unwrap_or(0), case["len"].as_u64().unwrap_or(1) as usize);
            check(&seq, case["template"].as_u64().unwrap_or(0) as usize, &root, case).0
        }
        Some("function") => check_function(&root, case),
        _ => Vec::new(),
    };
    let _ = std::fs::remove_dir_all(&root);
    out
}

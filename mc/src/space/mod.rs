pub mod prog;
pub mod skel;
pub mod tokens;

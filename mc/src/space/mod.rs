pub mod prog;
pub mod skel;

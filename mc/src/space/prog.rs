//! The harness's own abstract syntax for a Circom subset: control structure is first class,
//! simple statements and conditions are text fragments with an explicit list of identifier
//! occurrences. The printer emits source text and records the byte span of every node, condition
//! and identifier occurrence, so the generator doubles as the reference for "what the source
//! program is" (C08, C10, C12, C13, C14, C04).
use std::ops::Range;

#[derive(Clone, Copy, Debug, PartialEq, Eq, Hash)]
pub enum Role {
    /// `var x` / `signal x` / `component x` — declares the name.
    Decl,
    /// The name is assigned (left-hand side, scalar or element).
    Write,
    /// The name is read.
    Read,
}

#[derive(Clone, Debug, PartialEq, Eq)]
pub struct Ident {
    pub name: String,
    /// Byte offset inside the fragment.
    pub offset: usize,
    pub role: Role,
}

/// What a simple statement lifts to, one entry per IR statement, in order.
#[derive(Clone, Debug, PartialEq, Eq, Hash)]
pub enum Ev {
    Decl(String),
    /// Canonical `lhs op rhs` text (compound assignments expanded).
    Assign(String),
    ConstraintEq(String),
    Return(String),
    Assert(String),
    Log(String),
}

impl Ev {
    pub fn kind(&self) -> &'static str {
        match self {
            Ev::Decl(_) => "decl",
            Ev::Assign(_) => "assign",
            Ev::ConstraintEq(_) => "constraint",
            Ev::Return(_) => "return",
            Ev::Assert(_) => "assert",
            Ev::Log(_) => "log",
        }
    }
    pub fn text(&self) -> &str {
        match self {
            Ev::Decl(s)
            | Ev::Assign(s)
            | Ev::ConstraintEq(s)
            | Ev::Return(s)
            | Ev::Assert(s)
            | Ev::Log(s) => s,
        }
    }
    pub fn is_return(&self) -> bool {
        matches!(self, Ev::Return(_))
    }
}

#[derive(Clone, Debug, PartialEq, Eq)]
pub struct Atom {
    /// Source text without the terminating `;`.
    pub text: String,
    /// True if the parser's span for this statement includes the `;` (return, assert, log, ===).
    pub span_includes_semi: bool,
    pub idents: Vec<Ident>,
    pub events: Vec<Ev>,
}

impl Atom {
    pub fn new(text: &str, events: Vec<Ev>) -> Atom {
        Atom { text: text.to_string(), span_includes_semi: false, idents: Vec::new(), events }
    }
    pub fn assign(lhs: &str, rhs: &str) -> Atom {
        Atom::new(&format!("{lhs} = {rhs}"), vec![Ev::Assign(format!("{lhs} = {rhs}"))])
    }
    pub fn decl_var(name: &str) -> Atom {
        Atom::new(&format!("var {name}"), vec![Ev::Decl(format!("var {name}"))])
    }
    pub fn decl_var_init(name: &str, rhs: &str) -> Atom {
        Atom::new(
            &format!("var {name} = {rhs}"),
            vec![Ev::Decl(format!("var {name}")), Ev::Assign(format!("{name} = {rhs}"))],
        )
    }
    pub fn ret(value: &str) -> Atom {
        let mut a = Atom::new(&format!("return {value}"), vec![Ev::Return(format!("return {value}"))]);
        a.span_includes_semi = true;
        a
    }
    pub fn with_idents(mut self, idents: Vec<(&str, Role)>) -> Atom {
        // Occurrences are located left to right in the text.
        let mut from = 0;
        for (name, role) in idents {
            let off = find_ident(&self.text, name, from)
                .unwrap_or_else(|| panic!("identifier {name} not found in `{}`", self.text));
            self.idents.push(Ident { name: name.to_string(), offset: off, role });
            from = off + name.len();
        }
        self
    }
}

/// Finds `name` as a whole identifier in `text` at or after `from`.
pub fn find_ident(text: &str, name: &str, from: usize) -> Option<usize> {
    let bytes = text.as_bytes();
    let is_id = |b: u8| b.is_ascii_alphanumeric() || b == b'_' || b == b'$';
    let mut start = from;
    while let Some(pos) = text[start..].find(name) {
        let s = start + pos;
        let e = s + name.len();
        let left_ok = s == 0 || !is_id(bytes[s - 1]);
        let right_ok = e == bytes.len() || !is_id(bytes[e]);
        if left_ok && right_ok {
            return Some(s);
        }
        start = s + 1;
    }
    None
}

#[derive(Clone, Debug, PartialEq, Eq)]
pub struct Cond {
    pub text: String,
    pub idents: Vec<Ident>,
}

impl Cond {
    pub fn new(text: &str) -> Cond {
        Cond { text: text.to_string(), idents: Vec::new() }
    }
    pub fn with_reads(mut self, names: &[&str]) -> Cond {
        let mut from = 0;
        for name in names {
            let off = find_ident(&self.text, name, from).expect("identifier in condition");
            self.idents.push(Ident { name: name.to_string(), offset: off, role: Role::Read });
            from = off + name.len();
        }
        self
    }
}

#[derive(Clone, Debug, PartialEq, Eq)]
pub enum Body {
    Braced(Vec<Node>),
    Bare(Box<Node>),
}

impl Body {
    pub fn nodes(&self) -> Vec<&Node> {
        match self {
            Body::Braced(v) => v.iter().collect(),
            Body::Bare(n) => vec![n.as_ref()],
        }
    }
}

#[derive(Clone, Debug, PartialEq, Eq)]
pub enum Node {
    Atom(Atom),
    If { cond: Cond, then: Body, els: Option<Body> },
    While { cond: Cond, body: Body },
    For { init: Atom, cond: Cond, step: Atom, body: Body },
    Block(Vec<Node>),
}

#[derive(Clone, Copy, Debug, PartialEq, Eq)]
pub enum DefKind {
    Function,
    Template,
    CustomTemplate,
}

#[derive(Clone, Debug)]
pub struct Def {
    pub kind: DefKind,
    pub name: String,
    pub params: Vec<String>,
    pub body: Vec<Node>,
}

#[derive(Clone, Copy, Debug, PartialEq, Eq, Hash)]
pub enum SpanKind {
    Atom,
    If,
    While,
    For,
    Block,
    Cond,
    /// Braced body of an if / while / for (including the braces).
    BodyBlock,
    Params,
    Definition,
}

#[derive(Clone, Debug)]
pub struct SpanRec {
    pub kind: SpanKind,
    /// Preorder number of the node this span belongs to (conditions carry their statement's id).
    pub node: usize,
    pub range: Range<usize>,
    /// End including the `;` for simple statements (equals `range.end` otherwise).
    pub end_with_semi: usize,
    /// Number of enclosing loops whose *body* contains this node.
    pub loop_depth: usize,
}

#[derive(Clone, Debug)]
pub struct IdentRec {
    pub name: String,
    pub role: Role,
    pub range: Range<usize>,
    pub node: usize,
}

#[derive(Clone, Debug, Default)]
pub struct Printed {
    pub text: String,
    pub spans: Vec<SpanRec>,
    pub idents: Vec<IdentRec>,
}

impl Printed {
    pub fn span_of(&self, node: usize, kind: SpanKind) -> Option<&SpanRec> {
        self.spans.iter().find(|s| s.node == node && s.kind == kind)
    }
}

struct Printer {
    out: Printed,
    next_id: usize,
    indent: usize,
}

impl Printer {
    fn nl(&mut self) {
        self.out.text.push('\n');
        for _ in 0..self.indent {
            self.out.text.push_str("    ");
        }
    }

    fn atom(&mut self, atom: &Atom, id: usize, loop_depth: usize, semi: bool) {
        let start = self.out.text.len();
        self.out.text.push_str(&atom.text);
        let end = self.out.text.len();
        for ident in &atom.idents {
            self.out.idents.push(IdentRec {
                name: ident.name.clone(),
                role: ident.role,
                range: start + ident.offset..start + ident.offset + ident.name.len(),
                node: id,
            });
        }
        let mut end_with_semi = end;
        if semi {
            self.out.text.push(';');
            end_with_semi = end + 1;
        }
        let range = if atom.span_includes_semi && semi { start..end_with_semi } else { start..end };
        self.out.spans.push(SpanRec { kind: SpanKind::Atom, node: id, range, end_with_semi, loop_depth });
    }

    fn cond(&mut self, cond: &Cond, id: usize, loop_depth: usize) {
        let start = self.out.text.len();
        self.out.text.push_str(&cond.text);
        let end = self.out.text.len();
        for ident in &cond.idents {
            self.out.idents.push(IdentRec {
                name: ident.name.clone(),
                role: ident.role,
                range: start + ident.offset..start + ident.offset + ident.name.len(),
                node: id,
            });
        }
        self.out.spans.push(SpanRec {
            kind: SpanKind::Cond,
            node: id,
            range: start..end,
            end_with_semi: end,
            loop_depth,
        });
    }

    fn body(&mut self, body: &Body, owner: usize, loop_depth: usize) {
        match body {
            Body::Braced(nodes) => {
                let start = self.out.text.len();
                self.out.text.push('{');
                self.indent += 1;
                for n in nodes {
                    self.nl();
                    self.node(n, loop_depth);
                }
                self.indent -= 1;
                self.nl();
                self.out.text.push('}');
                let end = self.out.text.len();
                self.out.spans.push(SpanRec {
                    kind: SpanKind::BodyBlock,
                    node: owner,
                    range: start..end,
                    end_with_semi: end,
                    loop_depth,
                });
            }
            Body::Bare(n) => {
                self.indent += 1;
                self.nl();
                self.node(n, loop_depth);
                self.indent -= 1;
            }
        }
    }

    fn node(&mut self, node: &Node, loop_depth: usize) {
        let id = self.next_id;
        self.next_id += 1;
        match node {
            Node::Atom(atom) => self.atom(atom, id, loop_depth, true),
            Node::If { cond, then, els } => {
                let start = self.out.text.len();
                self.out.text.push_str("if (");
                self.cond(cond, id, loop_depth);
                self.out.text.push_str(") ");
                self.body(then, id, loop_depth);
                if let Some(els) = els {
                    if matches!(then, Body::Bare(_)) {
                        self.nl();
                    } else {
                        self.out.text.push(' ');
                    }
                    self.out.text.push_str("else ");
                    self.body(els, id, loop_depth);
                }
                let end = self.out.text.len();
                self.out.spans.push(SpanRec {
                    kind: SpanKind::If,
                    node: id,
                    range: start..end,
                    end_with_semi: end,
                    loop_depth,
                });
            }
            Node::While { cond, body } => {
                let start = self.out.text.len();
                self.out.text.push_str("while (");
                // The loop condition is evaluated outside the loop body.
                self.cond(cond, id, loop_depth);
                self.out.text.push_str(") ");
                self.body(body, id, loop_depth + 1);
                let end = self.out.text.len();
                self.out.spans.push(SpanRec {
                    kind: SpanKind::While,
                    node: id,
                    range: start..end,
                    end_with_semi: end,
                    loop_depth,
                });
            }
            Node::For { init, cond, step, body } => {
                let start = self.out.text.len();
                self.out.text.push_str("for (");
                let init_id = self.next_id;
                self.next_id += 1;
                self.atom(init, init_id, loop_depth, false);
                self.out.text.push_str("; ");
                self.cond(cond, id, loop_depth);
                self.out.text.push_str("; ");
                let step_id = self.next_id;
                self.next_id += 1;
                self.atom(step, step_id, loop_depth + 1, false);
                self.out.text.push_str(") ");
                self.body(body, id, loop_depth + 1);
                let end = self.out.text.len();
                self.out.spans.push(SpanRec {
                    kind: SpanKind::For,
                    node: id,
                    range: start..end,
                    end_with_semi: end,
                    loop_depth,
                });
            }
            Node::Block(nodes) => {
                let start = self.out.text.len();
                self.out.text.push('{');
                self.indent += 1;
                for n in nodes {
                    self.nl();
                    self.node(n, loop_depth);
                }
                self.indent -= 1;
                self.nl();
                self.out.text.push('}');
                let end = self.out.text.len();
                self.out.spans.push(SpanRec {
                    kind: SpanKind::Block,
                    node: id,
                    range: start..end,
                    end_with_semi: end,
                    loop_depth,
                });
            }
        }
    }
}

/// Prints one definition. Node ids are assigned in preorder over the body (a `for` takes three
/// consecutive ids: the loop, its init atom, its step atom).
pub fn print_def(def: &Def) -> Printed {
    let mut p = Printer { out: Printed::default(), next_id: 0, indent: 0 };
    let start = 0;
    match def.kind {
        DefKind::Function => p.out.text.push_str("function "),
        DefKind::Template => p.out.text.push_str("template "),
        DefKind::CustomTemplate => p.out.text.push_str("template custom "),
    }
    p.out.text.push_str(&def.name);
    p.out.text.push('(');
    let ps = p.out.text.len();
    p.out.text.push_str(&def.params.join(", "));
    let pe = p.out.text.len();
    p.out.spans.push(SpanRec {
        kind: SpanKind::Params,
        node: usize::MAX,
        range: ps..pe,
        end_with_semi: pe,
        loop_depth: 0,
    });
    p.out.text.push_str(") {");
    p.indent = 1;
    for n in &def.body {
        p.nl();
        p.node(n, 0);
    }
    p.indent = 0;
    p.nl();
    p.out.text.push('}');
    let end = p.out.text.len();
    p.out.spans.push(SpanRec {
        kind: SpanKind::Definition,
        node: usize::MAX,
        range: start..end,
        end_with_semi: end,
        loop_depth: 0,
    });
    p.out.text.push('\n');
    p.out
}

/// Removes whitespace and parentheses: the normal form under which the generator's canonical
/// statement text is compared with the IR's `Display` output.
pub fn normalise(s: &str) -> String {
    s.chars().filter(|c| !c.is_whitespace() && *c != '(' && *c != ')').collect()
}

//! A small Circom token scanner (independent of the LALRPOP lexer): identifiers, numbers,
//! strings, operators by maximal munch. Used to enumerate token positions and token gaps of a
//! source text and for the independent definition-header scan.
use std::ops::Range;

#[derive(Clone, Debug, PartialEq, Eq)]
pub struct Token {
    pub text: String,
    pub range: Range<usize>,
}

const OPERATORS: [&str; 46] = [
    "<==", "==>", "<--", "-->", "===", "**=", "<<=", ">>=", "\\=", "**", "++", "--", "+=", "-=", "*=", "/=", "%=", "&=", "|=", "^=",
    "<<", ">>", "<=", ">=", "==", "!=", "&&", "||", "+", "-", "*", "/", "\\", "%", "<", ">", "!", "~", "&", "|", "^", "=", "?", ":",
    ".", ",",
];

/// Tokens of `src`; comments (already absent in the bases we use) are not handled: callers scan
/// comment-free text or text whose comments were blanked by the reference lexer.
pub fn tokenize(src: &str) -> Vec<Token> {
    let b = src.as_bytes();
    let mut out = Vec::new();
    let mut i = 0;
    let is_id_start = |c: u8| c.is_ascii_alphabetic() || c == b'_' || c == b'$';
    let is_id = |c: u8| c.is_ascii_alphanumeric() || c == b'_' || c == b'$';
    while i < b.len() {
        let c = b[i];
        if c.is_ascii_whitespace() {
            i += 1;
            continue;
        }
        let start = i;
        if c == b'"' {
            i += 1;
            while i < b.len() && b[i] != b'"' {
                i += 1;
            }
            i = (i + 1).min(b.len());
        } else if is_id_start(c) {
            while i < b.len() && is_id(b[i]) {
                i += 1;
            }
        } else if c.is_ascii_digit() {
            while i < b.len() && (b[i].is_ascii_alphanumeric()) {
                i += 1;
            }
        } else if let Some(op) = OPERATORS.iter().find(|op| src[i..].starts_with(**op)) {
            i += op.len();
        } else {
            // brackets, semicolons and anything else: one character (possibly multi-byte)
            let ch = src[i..].chars().next().unwrap();
            i += ch.len_utf8();
        }
        out.push(Token { text: src[start..i].to_string(), range: start..i });
    }
    out
}

/// Names of the definitions declared at brace depth 0: (kind, name), in order.
pub fn definition_headers(src: &str) -> Vec<(String, String)> {
    let toks = tokenize(src);
    let mut depth = 0i32;
    let mut out = Vec::new();
    let mut i = 0;
    while i < toks.len() {
        let t = toks[i].text.as_str();
        match t {
            "{" => depth += 1,
            "}" => depth -= 1,
            "template" | "function" if depth == 0 => {
                let mut j = i + 1;
                while j < toks.len() && (toks[j].text == "custom" || toks[j].text == "parallel") && t == "template" {
                    j += 1;
                }
                if j < toks.len() && toks[j].text.chars().all(|c| c.is_ascii_alphanumeric() || c == '_' || c == '$') {
                    out.push((t.to_string(), toks[j].text.clone()));
                }
            }
            _ => {}
        }
        i += 1;
    }
    out
}

//! Exhaustive enumeration of control-flow skeletons: statement lists built from
//! `atom | if | if-else | while | for | {block}` with braced (possibly empty) or bare bodies,
//! bounded by total statement count and nesting depth.
use super::prog::{Atom, Body, Cond, Node};

#[derive(Clone, Debug, PartialEq, Eq, Hash)]
pub enum Sk {
    Atom,
    If(SkBody, Option<SkBody>),
    While(SkBody),
    For(SkBody),
    Block(Vec<Sk>),
}

#[derive(Clone, Debug, PartialEq, Eq, Hash)]
pub enum SkBody {
    Braced(Vec<Sk>),
    Bare(Box<Sk>),
}

#[derive(Clone, Copy, Debug)]
pub struct SkelOpts {
    /// Maximum number of statements (atoms and compound statements each count 1).
    pub max_stmts: usize,
    /// Maximum nesting depth of compound statements.
    pub max_depth: usize,
    pub allow_for: bool,
    pub allow_bare: bool,
    pub allow_block: bool,
    pub allow_empty_body: bool,
}

impl Sk {
    pub fn size(&self) -> usize {
        match self {
            Sk::Atom => 1,
            Sk::If(t, e) => 1 + t.size() + e.as_ref().map(|e| e.size()).unwrap_or(0),
            Sk::While(b) | Sk::For(b) => 1 + b.size(),
            Sk::Block(l) => 1 + l.iter().map(|s| s.size()).sum::<usize>(),
        }
    }
    pub fn atoms(&self) -> usize {
        match self {
            Sk::Atom => 1,
            Sk::If(t, e) => t.atoms() + e.as_ref().map(|e| e.atoms()).unwrap_or(0),
            Sk::While(b) | Sk::For(b) => b.atoms(),
            Sk::Block(l) => l.iter().map(|s| s.atoms()).sum(),
        }
    }
    pub fn conds(&self) -> usize {
        match self {
            Sk::Atom => 0,
            Sk::If(t, e) => 1 + t.conds() + e.as_ref().map(|e| e.conds()).unwrap_or(0),
            Sk::While(b) | Sk::For(b) => 1 + b.conds(),
            Sk::Block(l) => l.iter().map(|s| s.conds()).sum(),
        }
    }
    pub fn fors(&self) -> usize {
        match self {
            Sk::Atom => 0,
            Sk::If(t, e) => t.fors() + e.as_ref().map(|e| e.fors()).unwrap_or(0),
            Sk::While(b) => b.fors(),
            Sk::For(b) => 1 + b.fors(),
            Sk::Block(l) => l.iter().map(|s| s.fors()).sum(),
        }
    }
    pub fn loops(&self) -> usize {
        match self {
            Sk::Atom => 0,
            Sk::If(t, e) => t.loops() + e.as_ref().map(|e| e.loops()).unwrap_or(0),
            Sk::While(b) | Sk::For(b) => 1 + b.loops(),
            Sk::Block(l) => l.iter().map(|s| s.loops()).sum(),
        }
    }
}

impl SkBody {
    pub fn size(&self) -> usize {
        match self {
            SkBody::Braced(l) => l.iter().map(|s| s.size()).sum(),
            SkBody::Bare(s) => s.size(),
        }
    }
    pub fn atoms(&self) -> usize {
        match self {
            SkBody::Braced(l) => l.iter().map(|s| s.atoms()).sum(),
            SkBody::Bare(s) => s.atoms(),
        }
    }
    pub fn conds(&self) -> usize {
        match self {
            SkBody::Braced(l) => l.iter().map(|s| s.conds()).sum(),
            SkBody::Bare(s) => s.conds(),
        }
    }
    pub fn loops(&self) -> usize {
        match self {
            SkBody::Braced(l) => l.iter().map(|s| s.loops()).sum(),
            SkBody::Bare(s) => s.loops(),
        }
    }
    pub fn fors(&self) -> usize {
        match self {
            SkBody::Braced(l) => l.iter().map(|s| s.fors()).sum(),
            SkBody::Bare(s) => s.fors(),
        }
    }
}

struct Gen {
    opts: SkelOpts,
    // memo[(n, d)] for single statements and lists
    stmts: Vec<Vec<Option<Vec<Sk>>>>,
    lists: Vec<Vec<Option<Vec<Vec<Sk>>>>>,
}

impl Gen {
    fn stmts(&mut self, n: usize, d: usize) -> Vec<Sk> {
        if n == 0 {
            return Vec::new();
        }
        if let Some(v) = &self.stmts[n][d] {
            return v.clone();
        }
        let mut out = Vec::new();
        if n == 1 {
            out.push(Sk::Atom);
        }
        if d >= 1 {
            let inner = n - 1;
            // while / for
            for b in self.bodies(inner, d - 1, BarePos::Loop) {
                out.push(Sk::While(b.clone()));
                if self.opts.allow_for {
                    out.push(Sk::For(b));
                }
            }
            // if without else
            for b in self.bodies(inner, d - 1, BarePos::Then) {
                out.push(Sk::If(b, None));
            }
            // if with else: split inner between then and else
            for tn in 0..=inner {
                let thens = self.bodies(tn, d - 1, BarePos::Then);
                let elses = self.bodies(inner - tn, d - 1, BarePos::Else);
                for t in &thens {
                    for e in &elses {
                        out.push(Sk::If(t.clone(), Some(e.clone())));
                    }
                }
            }
            if self.opts.allow_block {
                for l in self.lists(inner, d - 1) {
                    if l.is_empty() && !self.opts.allow_empty_body {
                        continue;
                    }
                    out.push(Sk::Block(l));
                }
            }
        }
        self.stmts[n][d] = Some(out.clone());
        out
    }

    fn bodies(&mut self, n: usize, d: usize, pos: BarePos) -> Vec<SkBody> {
        let mut out = Vec::new();
        for l in self.lists(n, d) {
            if l.is_empty() && !self.opts.allow_empty_body {
                continue;
            }
            out.push(SkBody::Braced(l));
        }
        if self.opts.allow_bare && n >= 1 {
            for s in self.stmts(n, d) {
                let ok = match (&s, pos) {
                    (Sk::Atom | Sk::While(_) | Sk::For(_), _) => true,
                    // `else if` chains; an `if` is never a bare then/loop body (dangling else,
                    // and the grammar only admits loops and simple statements there).
                    (Sk::If(_, _), BarePos::Else) => true,
                    _ => false,
                };
                if ok {
                    out.push(SkBody::Bare(Box::new(s)));
                }
            }
        }
        out
    }

    /// Statement lists of total size exactly n.
    fn lists(&mut self, n: usize, d: usize) -> Vec<Vec<Sk>> {
        if let Some(v) = &self.lists[n][d] {
            return v.clone();
        }
        let mut out = Vec::new();
        if n == 0 {
            out.push(Vec::new());
        } else {
            for first in 1..=n {
                let heads = self.stmts(first, d);
                let tails = self.lists(n - first, d);
                for h in &heads {
                    for t in &tails {
                        let mut l = Vec::with_capacity(1 + t.len());
                        l.push(h.clone());
                        l.extend(t.iter().cloned());
                        out.push(l);
                    }
                }
            }
        }
        self.lists[n][d] = Some(out.clone());
        out
    }
}

#[derive(Clone, Copy, PartialEq, Eq)]
enum BarePos {
    Then,
    Else,
    Loop,
}

/// All top-level statement lists with 1..=max_stmts statements.
pub fn enumerate(opts: SkelOpts) -> Vec<Vec<Sk>> {
    let n = opts.max_stmts;
    let d = opts.max_depth;
    let mut gen = Gen {
        opts,
        stmts: vec![vec![None; d + 1]; n + 1],
        lists: vec![vec![None; d + 1]; n + 1],
    };
    let mut out = Vec::new();
    for size in 1..=n {
        out.extend(gen.lists(size, d));
    }
    out
}

/// Supplies the text of atoms, conditions and for-headers when a skeleton is instantiated.
pub trait Filler {
    fn atom(&mut self) -> Atom;
    fn cond(&mut self, is_loop: bool) -> Cond;
    /// (init, cond, step) of a `for`.
    fn for_header(&mut self) -> (Atom, Cond, Atom);
}

pub fn instantiate(list: &[Sk], filler: &mut dyn Filler) -> Vec<Node> {
    list.iter().map(|s| inst(s, filler)).collect()
}

fn inst_body(b: &SkBody, filler: &mut dyn Filler) -> Body {
    match b {
        SkBody::Braced(l) => Body::Braced(instantiate(l, filler)),
        SkBody::Bare(s) => Body::Bare(Box::new(inst(s, filler))),
    }
}

fn inst(s: &Sk, filler: &mut dyn Filler) -> Node {
    match s {
        Sk::Atom => Node::Atom(filler.atom()),
        Sk::If(t, e) => {
            let cond = filler.cond(false);
            let then = inst_body(t, filler);
            let els = e.as_ref().map(|e| inst_body(e, filler));
            Node::If { cond, then, els }
        }
        Sk::While(b) => {
            let cond = filler.cond(true);
            let body = inst_body(b, filler);
            Node::While { cond, body }
        }
        Sk::For(b) => {
            let (init, cond, step) = filler.for_header();
            let body = inst_body(b, filler);
            Node::For { init, cond, step, body }
        }
        Sk::Block(l) => Node::Block(instantiate(l, filler)),
    }
}

/// Number of skeleton lists for the evidence file.
pub fn count(opts: SkelOpts) -> usize {
    enumerate(opts).len()
}

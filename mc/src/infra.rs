//! Shared plumbing: run context, violations grouped by signature, known findings, evidence and
//! replay files, panic capture, parallel index sweeps.
use serde_json::{json, Value};
use std::cell::RefCell;
use std::collections::{BTreeMap, BTreeSet};
use std::panic::{catch_unwind, AssertUnwindSafe};
use std::path::{Path, PathBuf};
use std::sync::atomic::{AtomicU64, AtomicUsize, Ordering};
use std::sync::Mutex;
use std::time::Instant;

pub const VERIF_DIR: &str = "/verif";

#[derive(Clone, Copy, PartialEq, Eq, Debug)]
pub enum Tier {
    Quick,
    Thorough,
}

impl Tier {
    pub fn name(self) -> &'static str {
        match self {
            Tier::Quick => "quick",
            Tier::Thorough => "thorough",
        }
    }
    pub fn pick<T>(self, quick: T, thorough: T) -> T {
        match self {
            Tier::Quick => quick,
            Tier::Thorough => thorough,
        }
    }
}

/// One observed violation of a property on one case.
#[derive(Clone, Debug)]
pub struct Violation {
    /// Root-cause coordinate (see DESIGN.md 3.5). Violations are grouped by it.
    pub signature: String,
    /// One line for humans.
    pub what: String,
    /// Everything needed to re-run exactly this case (`kind` selects the replay routine).
    pub case: Value,
    pub expected: String,
    pub observed: String,
}

struct Group {
    count: u64,
    first: Violation,
}

/// Run context of one check.
pub struct Run {
    pub property: String,
    pub tier: Tier,
    pub level: &'static str,
    start: Instant,
    pub evaluations: AtomicU64,
    pub nontrivial: AtomicU64,
    pub states: AtomicU64,
    pub transitions: AtomicU64,
    pub traces: AtomicU64,
    /// Number of cases on which the code under test exceeded its deadline.
    pub hangs: AtomicU64,
    groups: Mutex<BTreeMap<String, Group>>,
    outcomes: Mutex<BTreeSet<String>>,
    samples: Mutex<Vec<Value>>,
    extra: Mutex<BTreeMap<String, Value>>,
    caps: Mutex<Vec<String>>,
    assumptions: Mutex<Vec<String>>,
    machinery_errors: Mutex<Vec<String>>,
    pub rule: Mutex<String>,
    pub exhaustive: Mutex<bool>,
    slots: Mutex<Vec<std::sync::Arc<Slot>>>,
}

/// The case a worker thread is currently executing (for the hang watchdog).
pub struct Slot {
    case: Mutex<Option<Value>>,
    tag: Mutex<&'static str>,
    a: AtomicU64,
    b: AtomicU64,
    /// Milliseconds since the run started at which the current case was entered; 0 = idle.
    since_ms: AtomicU64,
}

thread_local! {
    static MY_SLOT: RefCell<Option<std::sync::Arc<Slot>>> = const { RefCell::new(None) };
}

impl Run {
    pub fn new(property: &str, tier: Tier, level: &'static str) -> Run {
        Run {
            property: property.to_string(),
            tier,
            level,
            start: Instant::now(),
            evaluations: AtomicU64::new(0),
            nontrivial: AtomicU64::new(0),
            states: AtomicU64::new(0),
            transitions: AtomicU64::new(0),
            traces: AtomicU64::new(0),
            hangs: AtomicU64::new(0),
            groups: Mutex::new(BTreeMap::new()),
            outcomes: Mutex::new(BTreeSet::new()),
            samples: Mutex::new(Vec::new()),
            extra: Mutex::new(BTreeMap::new()),
            caps: Mutex::new(Vec::new()),
            assumptions: Mutex::new(Vec::new()),
            machinery_errors: Mutex::new(Vec::new()),
            rule: Mutex::new(String::new()),
            exhaustive: Mutex::new(true),
            slots: Mutex::new(Vec::new()),
        }
    }

    fn my_slot(&self) -> std::sync::Arc<Slot> {
        MY_SLOT.with(|s| {
            let mut s = s.borrow_mut();
            if s.is_none() {
                let slot = std::sync::Arc::new(Slot {
                    case: Mutex::new(None),
                    tag: Mutex::new(""),
                    a: AtomicU64::new(0),
                    b: AtomicU64::new(0),
                    since_ms: AtomicU64::new(0),
                });
                self.slots.lock().unwrap().push(slot.clone());
                *s = Some(slot);
            }
            s.as_ref().unwrap().clone()
        })
    }

    fn now_ms(&self) -> u64 {
        self.start.elapsed().as_millis() as u64 + 1
    }

    /// Declares the case this thread is about to execute. If the thread is still on it after
    /// the watchdog's limit, the case is reported as a hang of the code under test.
    pub fn watch(&self, case: &Value) {
        let slot = self.my_slot();
        *slot.case.lock().unwrap() = Some(case.clone());
        slot.since_ms.store(self.now_ms(), Ordering::Relaxed);
    }

    /// Cheap variant for very large sweeps: the case is `{"kind": tag, "n": a, "code": b}`.
    pub fn watch_num(&self, tag: &'static str, a: u64, b: u64) {
        let slot = self.my_slot();
        if slot.case.lock().unwrap().is_some() {
            *slot.case.lock().unwrap() = None;
        }
        *slot.tag.lock().unwrap() = tag;
        slot.a.store(a, Ordering::Relaxed);
        slot.b.store(b, Ordering::Relaxed);
        slot.since_ms.store(self.now_ms(), Ordering::Relaxed);
    }

    /// The thread is between cases.
    pub fn idle(&self) {
        let slot = self.my_slot();
        slot.since_ms.store(0, Ordering::Relaxed);
    }

    /// Starts the hang watchdog: a case that runs longer than `limit_secs` is recorded as a
    /// violation (`hang@...`), results are written and the process exits (threads cannot be
    /// cancelled).
    pub fn start_watchdog(&'static self, limit_secs: u64) {
        std::thread::spawn(move || loop {
            std::thread::sleep(std::time::Duration::from_millis(250));
            let now = self.now_ms();
            let slots: Vec<std::sync::Arc<Slot>> = self.slots.lock().unwrap().clone();
            for slot in slots {
                // `slots` holds one clone, the registry another; a third belongs to a live thread.
                if std::sync::Arc::strong_count(&slot) < 3 {
                    continue;
                }
                let since = slot.since_ms.load(Ordering::Relaxed);
                if since != 0 && now > since + limit_secs * 1000 {
                    let case = slot.case.lock().unwrap().clone().unwrap_or_else(|| {
                        json!({"kind": *slot.tag.lock().unwrap(), "n": slot.a.load(Ordering::Relaxed), "code": slot.b.load(Ordering::Relaxed)})
                    });
                    let kind = case["kind"].as_str().unwrap_or("case").to_string();
                    self.violation(Violation {
                        signature: format!("hang/{kind}"),
                        what: format!("the code under test did not return within {limit_secs} s on this case"),
                        case,
                        expected: "termination".into(),
                        observed: format!("still running after {limit_secs} s; check stopped here"),
                    });
                    self.cap("stopped at a hang of the code under test; remaining cases not explored");
                    let code = self.finish();
                    std::process::exit(code);
                }
            }
        });
    }

    pub fn eval(&self, n: u64) {
        self.evaluations.fetch_add(n, Ordering::Relaxed);
    }
    pub fn nontrivial(&self, n: u64) {
        self.nontrivial.fetch_add(n, Ordering::Relaxed);
    }
    pub fn add_states(&self, n: u64) {
        self.states.fetch_add(n, Ordering::Relaxed);
    }
    pub fn add_transitions(&self, n: u64) {
        self.transitions.fetch_add(n, Ordering::Relaxed);
    }
    pub fn add_traces(&self, n: u64) {
        self.traces.fetch_add(n, Ordering::Relaxed);
    }

    /// After three deadline overruns a sweep stops launching further cases (each would cost a
    /// full deadline); the run is then reported as capped, never as exhaustive.
    pub fn too_many_hangs(&self) -> bool {
        if self.hangs.load(Ordering::Relaxed) >= 3 {
            let mut caps = self.caps.lock().unwrap();
            let msg = "sweep stopped after three deadline overruns of the code under test; remaining cases skipped";
            if !caps.iter().any(|c| c == msg) {
                caps.push(msg.to_string());
            }
            true
        } else {
            false
        }
    }

    pub fn violation(&self, v: Violation) {
        if v.signature.starts_with("hang") || v.signature.contains("/hang") || v.signature.contains("does-not-complete") {
            self.hangs.fetch_add(1, Ordering::Relaxed);
        }
        if let Ok(path) = std::env::var("VERIF_DUMP") {
            use std::io::Write;
            if let Ok(mut f) = std::fs::OpenOptions::new().create(true).append(true).open(path) {
                let _ = writeln!(f, "{}", json!({"signature": v.signature, "case": v.case}));
            }
        }
        let mut groups = self.groups.lock().unwrap();
        match groups.get_mut(&v.signature) {
            Some(group) => group.count += 1,
            None => {
                groups.insert(v.signature.clone(), Group { count: 1, first: v });
            }
        }
    }

    pub fn violations(&self, vs: Vec<Violation>) {
        for v in vs {
            self.violation(v);
        }
    }

    /// Record an observable outcome class (for the vacuity guard).
    pub fn outcome(&self, outcome: &str) {
        let mut outcomes = self.outcomes.lock().unwrap();
        if !outcomes.contains(outcome) && outcomes.len() < 10_000 {
            outcomes.insert(outcome.to_string());
        }
    }

    pub fn sample(&self, sample: Value) {
        let mut samples = self.samples.lock().unwrap();
        if samples.len() < 6 {
            samples.push(sample);
        }
    }

    pub fn want_sample(&self) -> bool {
        self.samples.lock().unwrap().len() < 6
    }

    pub fn set_extra(&self, key: &str, value: Value) {
        self.extra.lock().unwrap().insert(key.to_string(), value);
    }

    pub fn add_extra_count(&self, key: &str, n: u64) {
        let mut extra = self.extra.lock().unwrap();
        let cur = extra.get(key).and_then(|v| v.as_u64()).unwrap_or(0);
        extra.insert(key.to_string(), json!(cur + n));
    }

    pub fn cap(&self, what: &str) {
        self.caps.lock().unwrap().push(what.to_string());
        *self.exhaustive.lock().unwrap() = false;
    }

    pub fn assume(&self, what: &str) {
        let mut a = self.assumptions.lock().unwrap();
        if !a.iter().any(|x| x == what) {
            a.push(what.to_string());
        }
    }

    pub fn set_rule(&self, rule: &str) {
        let mut r = self.rule.lock().unwrap();
        if !r.is_empty() {
            r.push_str(" || ");
        }
        r.push_str(rule);
    }

    /// A failure of the harness itself (never a verdict).
    pub fn machinery_error(&self, what: &str) {
        self.machinery_errors.lock().unwrap().push(what.to_string());
    }

    /// Writes evidence and replay files, prints KNOWN-FINDING / VIOLATION lines, returns the
    /// process exit code: 0 held (modulo listed findings), 1 new violation, 2 machinery failure.
    pub fn finish(&self) -> i32 {
        let known = load_known(&self.property);
        let groups = self.groups.lock().unwrap();
        let mut new_violations = 0u64;
        let mut known_seen = Vec::new();
        let mut total = 0u64;
        let replay_dir = PathBuf::from(VERIF_DIR).join("replays").join(&self.property);
        for (signature, group) in groups.iter() {
            total += group.count;
            let replay = json!({
                "property": self.property,
                "signature": signature,
                "what": group.first.what,
                "case": group.first.case,
                "expected": group.first.expected,
                "observed": group.first.observed,
                "cases_with_this_signature": group.count,
            });
            let file = replay_dir.join(format!("{}.json", sanitize(signature)));
            let _ = std::fs::create_dir_all(&replay_dir);
            let _ = std::fs::write(&file, serde_json::to_string_pretty(&replay).unwrap() + "\n");
            match known.iter().find(|k| k.matches(signature)) {
                Some(k) if k.status == "open" => {
                    println!(
                        "KNOWN-FINDING: property={} {} {} ({} cases, witness {})",
                        self.property,
                        signature,
                        k.what,
                        group.count,
                        file.display()
                    );
                    known_seen.push(signature.clone());
                }
                _ => {
                    new_violations += 1;
                    println!("VIOLATION property={} replay={}", self.property, file.display());
                    println!(
                        "  signature: {}\n  what: {}\n  expected: {}\n  observed: {}\n  cases: {}",
                        signature,
                        group.first.what,
                        truncate(&group.first.expected, 600),
                        truncate(&group.first.observed, 600),
                        group.count
                    );
                }
            }
        }
        let evaluations = self.evaluations.load(Ordering::Relaxed);
        let nontrivial = self.nontrivial.load(Ordering::Relaxed);
        let outcomes = self.outcomes.lock().unwrap().clone();
        let mut machinery = self.machinery_errors.lock().unwrap().clone();
        if evaluations == 0 {
            machinery.push("no case was evaluated".to_string());
        }
        if nontrivial < 2 {
            machinery.push(format!("vacuity guard: only {nontrivial} non-trivial cases"));
        }
        let mut coverage = serde_json::Map::new();
        coverage.insert("evaluations".into(), json!(evaluations));
        coverage.insert("distinct_nontrivial".into(), json!(nontrivial));
        coverage.insert("rule".into(), json!(self.rule.lock().unwrap().clone()));
        let mut samples = self.samples.lock().unwrap().clone();
        if samples.is_empty() {
            samples.push(json!("no sample recorded"));
        }
        coverage.insert("samples".into(), json!(samples));
        let states = self.states.load(Ordering::Relaxed);
        let transitions = self.transitions.load(Ordering::Relaxed);
        if states > 0 || self.level == "model_checking" {
            coverage.insert("states".into(), json!(states));
            coverage.insert("transitions".into(), json!(transitions));
            coverage.insert(
                "traces_validated_against_impl".into(),
                json!(self.traces.load(Ordering::Relaxed)),
            );
        }
        coverage.insert("distinct_outcomes".into(), json!(outcomes.len()));
        coverage.insert(
            "outcome_examples".into(),
            json!(outcomes.iter().take(12).cloned().collect::<Vec<_>>()),
        );
        let caps = self.caps.lock().unwrap().clone();
        coverage.insert("exhaustive".into(), json!(*self.exhaustive.lock().unwrap() && caps.is_empty()));
        coverage.insert("caps_hit".into(), json!(caps));
        coverage.insert("violation_signatures".into(), json!(groups.keys().collect::<Vec<_>>()));
        coverage.insert("known_findings_observed".into(), json!(known_seen));
        coverage.insert("violating_cases".into(), json!(total));
        for (k, v) in self.extra.lock().unwrap().iter() {
            coverage.insert(k.clone(), v.clone());
        }
        let seed = std::env::var("VERIF_SEED").ok().and_then(|s| s.parse::<i64>().ok()).unwrap_or(0);
        let evidence = json!({
            "property_id": self.property,
            "tier": self.tier.name(),
            "seed": seed,
            "level": self.level,
            "coverage": Value::Object(coverage),
            "assumptions": self.assumptions.lock().unwrap().clone(),
            "wall_s": self.start.elapsed().as_secs_f64(),
            "violations": new_violations,
        });
        let evidence_dir = PathBuf::from(VERIF_DIR).join("evidence");
        let _ = std::fs::create_dir_all(&evidence_dir);
        let evidence_file = evidence_dir.join(format!("{}.json", self.property));
        if let Err(e) =
            std::fs::write(&evidence_file, serde_json::to_string_pretty(&evidence).unwrap() + "\n")
        {
            machinery.push(format!("cannot write evidence: {e}"));
        }
        eprintln!(
            "[{}/{}] evaluations={} nontrivial={} states={} transitions={} outcomes={} signatures={} new={} wall={:.1}s",
            self.property,
            self.tier.name(),
            evaluations,
            nontrivial,
            states,
            transitions,
            outcomes.len(),
            groups.len(),
            new_violations,
            self.start.elapsed().as_secs_f64()
        );
        if new_violations > 0 {
            return 1;
        }
        if !machinery.is_empty() {
            for m in machinery {
                eprintln!("MACHINERY-ERROR property={} {}", self.property, m);
            }
            return 2;
        }
        0
    }
}

pub fn truncate(s: &str, n: usize) -> String {
    if s.len() <= n {
        s.to_string()
    } else {
        let mut end = n;
        while !s.is_char_boundary(end) {
            end -= 1;
        }
        format!("{}…", &s[..end])
    }
}

pub fn sanitize(signature: &str) -> String {
    let mut out = String::new();
    for c in signature.chars() {
        if c.is_ascii_alphanumeric() || c == '-' || c == '_' || c == '.' {
            out.push(c);
        } else {
            out.push('_');
        }
    }
    // Distinct signatures must not share a file: append a short hash of the exact signature.
    let mut hash: u64 = 0xcbf29ce484222325;
    for b in signature.bytes() {
        hash ^= b as u64;
        hash = hash.wrapping_mul(0x100000001b3);
    }
    out.truncate(90);
    out.push_str(&format!("-{:08x}", hash as u32));
    out
}

pub struct Known {
    pub signature: String,
    pub what: String,
    pub status: String,
}

impl Known {
    pub fn matches(&self, signature: &str) -> bool {
        self.signature == signature
    }
}

pub fn load_known(property: &str) -> Vec<Known> {
    let path = Path::new(VERIF_DIR).join("known_findings.jsonl");
    let Ok(text) = std::fs::read_to_string(path) else {
        return Vec::new();
    };
    let mut out = Vec::new();
    for line in text.lines() {
        let line = line.trim();
        if line.is_empty() || line.starts_with('#') {
            continue;
        }
        let Ok(v) = serde_json::from_str::<Value>(line) else {
            eprintln!("MACHINERY-WARNING unparsable known_findings line: {line}");
            continue;
        };
        if v["property"].as_str() == Some(property) {
            out.push(Known {
                signature: v["signature"].as_str().unwrap_or("").to_string(),
                what: v["what"].as_str().unwrap_or("").to_string(),
                status: v["status"].as_str().unwrap_or("open").to_string(),
            });
        }
    }
    out
}

// ---------------------------------------------------------------------------------------------
// Panic capture

thread_local! {
    static LAST_PANIC: RefCell<Option<(String, String)>> = const { RefCell::new(None) };
    static CAPTURING: RefCell<bool> = const { RefCell::new(false) };
}

/// Install a panic hook that records location and message for threads that are inside
/// `catch`, and stays silent for them.
pub fn install_panic_hook() {
    let default = std::panic::take_hook();
    std::panic::set_hook(Box::new(move |info| {
        let capturing = CAPTURING.with(|c| *c.borrow());
        if capturing {
            let loc = info
                .location()
                .map(|l| format!("{}:{}", l.file(), l.line()))
                .unwrap_or_else(|| "?".to_string());
            let msg = if let Some(s) = info.payload().downcast_ref::<&str>() {
                s.to_string()
            } else if let Some(s) = info.payload().downcast_ref::<String>() {
                s.clone()
            } else {
                "<non-string panic payload>".to_string()
            };
            LAST_PANIC.with(|p| *p.borrow_mut() = Some((loc, msg)));
        } else {
            default(info);
        }
    }));
}

#[derive(Clone, Debug)]
pub struct PanicInfo {
    /// Repo-relative file (line stripped) – stable under edits.
    pub file: String,
    pub line: String,
    pub message: String,
}

impl PanicInfo {
    pub fn signature(&self) -> String {
        let msg: String = self.message.chars().take(60).collect();
        // Drop variable parts (numbers) from the message so the signature is per site.
        let msg: String =
            msg.chars().map(|c| if c.is_ascii_digit() { '#' } else { c }).collect();
        format!("panic@{}::{}", self.file, msg)
    }
}

/// Run `f`, converting a panic into `Err(PanicInfo)`.
pub fn catch<T>(f: impl FnOnce() -> T) -> Result<T, PanicInfo> {
    CAPTURING.with(|c| *c.borrow_mut() = true);
    LAST_PANIC.with(|p| *p.borrow_mut() = None);
    let result = catch_unwind(AssertUnwindSafe(f));
    CAPTURING.with(|c| *c.borrow_mut() = false);
    match result {
        Ok(value) => Ok(value),
        Err(_) => {
            let (loc, message) = LAST_PANIC
                .with(|p| p.borrow_mut().take())
                .unwrap_or_else(|| ("?".to_string(), "?".to_string()));
            let (file, line) = match loc.rsplit_once(':') {
                Some((f, l)) => (f.to_string(), l.to_string()),
                None => (loc.clone(), String::new()),
            };
            let file = match file.find("/out/") {
                Some(pos) if file.contains("/build/") => format!("gen:{}", &file[pos + 5..]),
                _ => file,
            };
            let file = file
                .strip_prefix("/repo/")
                .map(|s| s.to_string())
                .unwrap_or_else(|| match file.find("/registry/src/") {
                    Some(pos) => {
                        let rest = &file[pos + "/registry/src/".len()..];
                        let rest = rest.split_once('/').map(|(_, r)| r).unwrap_or(rest);
                        format!("dep:{rest}")
                    }
                    None => file.clone(),
                });
            Err(PanicInfo { file, line, message })
        }
    }
}

// ---------------------------------------------------------------------------------------------
// Parallel sweeps over an index space

pub fn threads() -> usize {
    std::env::var("VERIF_THREADS")
        .ok()
        .and_then(|s| s.parse().ok())
        .unwrap_or_else(|| std::thread::available_parallelism().map(|n| n.get()).unwrap_or(4))
}

/// Calls `f(i)` for every `i` in `0..n`, exactly once, on `threads()` worker threads.
pub fn par_for(n: u64, chunk: u64, f: impl Fn(u64) + Sync) {
    let next = AtomicU64::new(0);
    let nthreads = threads().max(1);
    std::thread::scope(|scope| {
        for _ in 0..nthreads {
            scope.spawn(|| loop {
                let start = next.fetch_add(chunk, Ordering::Relaxed);
                if start >= n {
                    break;
                }
                let end = (start + chunk).min(n);
                for i in start..end {
                    f(i);
                }
            });
        }
    });
}

/// Calls `f(&item)` for every item of the slice, in parallel.
pub fn par_each<T: Sync>(items: &[T], f: impl Fn(usize, &T) + Sync) {
    let next = AtomicUsize::new(0);
    let nthreads = threads().max(1);
    std::thread::scope(|scope| {
        for _ in 0..nthreads {
            scope.spawn(|| loop {
                let i = next.fetch_add(1, Ordering::Relaxed);
                if i >= items.len() {
                    break;
                }
                f(i, &items[i]);
            });
        }
    });
}

/// Scratch directory under /verif/.work (git-ignored); removed by the caller.
pub fn work_dir(name: &str) -> PathBuf {
    let dir = PathBuf::from(VERIF_DIR).join(".work").join(format!("{}-{}", name, std::process::id()));
    let _ = std::fs::remove_dir_all(&dir);
    std::fs::create_dir_all(&dir).expect("create work dir");
    dir
}

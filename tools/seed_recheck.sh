#!/bin/bash
# Re-run checks against a stored seeded change: tools/seed_recheck.sh <PROP-LABEL> <check ids...>
# Applies /verif/seeded/<PROP-LABEL>/patch.diff to /repo, runs the quick tiers, reverts, and
# records the result in meta.json (the earlier result is kept under "earlier_runs").
set -u
name=$1; shift
dir=/verif/seeded/$name
[ -f "$dir/patch.diff" ] || { echo "no such seeded change $name"; exit 2; }
[ -z "$(git -C /repo status --porcelain)" ] || { echo "/repo is not clean"; exit 2; }
git -C /repo apply "$dir/patch.diff" || { echo "patch does not apply"; exit 2; }
trap 'git -C /repo checkout -- .' EXIT
res="[]"
for c in "$@"; do
  out=$(cd /verif && timeout 900 ./check "$c" quick 2>&1); rc=$?
  sigs=$(echo "$out" | grep -o 'replay=/verif/replays/[^ ]*' | sed 's|.*/replays/[^/]*/||; s|-[0-9a-f]\{8\}\.json||' | sort -u | tr '\n' '|')
  res=$(python3 -c "import json,sys; r=json.loads(sys.argv[1]); r.append({'check':sys.argv[2],'exit':int(sys.argv[3]),'signatures':sys.argv[4]}); print(json.dumps(r))" "$res" "$c" "$rc" "$sigs")
done
python3 - "$dir/meta.json" "$res" <<'P'
import json,sys
p=sys.argv[1]; m=json.load(open(p)); new=json.loads(sys.argv[2])
m.setdefault('earlier_runs',[]).append(m.get('checks_run_against_it',[]))
m['checks_run_against_it']=new
json.dump(m,open(p,'w'),indent=1)
print(json.dumps(new))
P

#!/bin/bash
# tools/seed_eval.sh <PROP> <LABEL> [extra check ids...]
# Confirms a seeded change (tests still pass, demo fails with it and passes without) in its scratch
# worktree, then applies it to /repo, runs the property's quick check, and reverts /repo.
set -u
PROP=$1; LABEL=$2; shift 2
WT=/tmp/mut/$PROP; OUT=/tmp/mut/$PROP-out/$LABEL
DEST=/verif/seeded/$PROP-$LABEL
LOG=/tmp/mut/$PROP-$LABEL.eval.log
: > $LOG
cd $WT || exit 2
git checkout -q -- . ; git clean -fdq -e target
git apply $OUT/patch.diff || { echo "patch does not apply"; exit 2; }
echo "== tests with patch" >> $LOG
CARGO_NET_OFFLINE=true CARGO_TARGET_DIR=$WT/target cargo test --workspace --no-fail-fast --offline -j 8 >> $LOG 2>&1
tests_rc=$?
tests_summary=$(grep -E "^test result" $LOG | awk '{p+=$4; f+=$6} END {print p" passed, "f" failed"}')
echo "== demo with patch" >> $LOG
demo_with=NA; demo_without=NA
if [ -f $OUT/demo/run.sh ]; then
  # Some demos take the worktree, others the built binary.
  if grep -q "target/debug/circomspect" $OUT/demo/run.sh; then ARG=$WT/target/debug/circomspect; BUILD=1; else ARG=$WT; BUILD=0; fi
  [ $BUILD = 1 ] && CARGO_NET_OFFLINE=true CARGO_TARGET_DIR=$WT/target cargo build --offline -j 8 >> $LOG 2>&1
  bash $OUT/demo/run.sh $ARG >> $LOG 2>&1; demo_with=$?
  git checkout -q -- . ; git clean -fdq -e target
  [ $BUILD = 1 ] && CARGO_NET_OFFLINE=true CARGO_TARGET_DIR=$WT/target cargo build --offline -j 8 >> $LOG 2>&1
  echo "== demo without patch" >> $LOG
  bash $OUT/demo/run.sh $ARG >> $LOG 2>&1; demo_without=$?
fi
git checkout -q -- . ; git clean -fdq -e target
# Now against /repo with the real checks.
cd /verif
git -C /repo apply $OUT/patch.diff || { echo "patch does not apply to /repo"; exit 2; }
results=""
for id in $PROP "$@"; do
  out=$(timeout 900 ./check $id quick 2>&1); rc=$?
  sigs=$(echo "$out" | grep -E "^  signature:" | sed 's/  signature: //' | tr '\n' '|' | sed 's/\\/\\\\/g; s/"/\\"/g')
  results="$results{\"check\":\"$id\",\"exit\":$rc,\"signatures\":\"$sigs\"},"
  echo "== check $id rc=$rc" >> $LOG; echo "$out" | head -40 >> $LOG
done
git -C /repo checkout -q -- .
mkdir -p $DEST; cp $OUT/patch.diff $DEST/; rm -rf $DEST/demo; cp -r $OUT/demo $DEST/demo 2>/dev/null
python3 - "$OUT/meta.json" "$DEST/meta.json" "$tests_rc" "$tests_summary" "$demo_with" "$demo_without" "[${results%,}]" <<'PY'
import json,sys
src,dst,trc,tsum,dw,dwo,res=sys.argv[1:]
try: m=json.load(open(src))
except Exception as e: m={"note":"agent meta.json unreadable: %s"%e}
m["confirmed"]={"existing_tests_exit":int(trc),"existing_tests":tsum,"demo_exit_with_patch":dw,"demo_exit_without_patch":dwo}
m["checks_run_against_it"]=json.loads(res)
json.dump(m,open(dst,"w"),indent=1)
print(json.dumps({"tests":tsum,"tests_rc":int(trc),"demo_with":dw,"demo_without":dwo,"checks":json.loads(res)}))
PY

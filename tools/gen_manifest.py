#!/usr/bin/env python3
"""Generates /verif/MANIFEST.json from the table below (kept in one place so it stays valid)."""
import json, subprocess

CHECKS = {
 "C01": dict(category="exploration", technique="bounded exhaustive enumeration of statement-form x expression-form x context programs, of all short symbol strings in three embeddings and of all 1-/2-byte files, driven in-process through the public call sequence of main with panic capture and a hang watchdog; scaling ladder and option product through the binary under deadline and memory limit",
   text="(i) 52 statement forms x ~130 expression forms (all operators, ternary, calls, arrays, accesses, tuples, anonymous components, parallel, `_`, literal alphabet incl. 0x, p, 2^256, division by zero, huge shifts; depth 2 in thorough) x 5 contexts; (ii) all strings of <=3 (4) symbols over a 30-symbol alphabet as whole file, template body and expression, all 1-byte and 4k (65k) 2-byte files; (iii) 13 recursion-prone constructs at sizes 10..300 (10^4) through the binary with 45 s / 4 GiB limits; (iv) corpus x curve spellings x levels x verbose x sarif through the binary. Oracle: no panic, no signal, termination, exit 0/1 and a summary line (exit 2 for option values the argument parser must reject).",
   note="Closed only up to the stated lengths/depths. Two open known findings (nested array indices blow up memory; 1000 nested loops take minutes).", ref="5/C01"),
 "C02": dict(category="fault_enumeration", technique="exhaustive fault injection: every fault kind at every token position of clean base projects, through the production binary",
   text="Base projects (single file; file + include; file + -L library) x fault alphabet {invalid token, token deleted, token duplicated, unclosed comment} at every token position of the main file, plus structural faults (missing / non-UTF-8 / dangling file, missing second file, missing include, unsupported pragmas, sugar in functions, malformed sugar in templates, duplicate parameters, several mains, duplicate definitions with and without main). Oracle (a): faults whose effect is known by construction must show an error-level diagnostic and exit != 0, also under --level error; oracle (b): for every mutant without an error-level diagnostic the multiset of `analyzing ...` lines equals the definition headers found by an independent token scan.",
   note="Trusted: token scanner (mc/src/space/tokens.rs), stdout parser. Runs as root: unreadable files are represented by non-UTF-8 content and dangling symlinks.", ref="5/C02"),
 "C03": dict(category="model_checking", technique="explicit-state exploration of the real AnalysisRunner over every analysis order (history replay, hook H3) x every instantiation digraph; full option lattice through the binary against an output model",
   text="(a) For every instantiation relation on 2 and 3 templates (+4 templates with <=3 edges in thorough) plus a function, every permutation of analyze(d) events is replayed on a fresh real runner; in every state the findings displayed for d equal d's findings in isolation (own lifting reports + all passes) and nothing is displayed twice. (b,c) For four corpus projects the full lattice level x 2^ids x verbose x sarif is run through the binary: exit 0 iff nothing displayed, summary count = diagnostics, SARIF results = displayed findings (id, level, message, uri, line, column) with one rule per id, displayed set = filter law applied to the unfiltered run; the unfiltered run itself is compared with the in-process unfiltered findings under the file clause.",
   note="Hook H3 (per-definition analysis entry points, cache keys). Trusted: stdout/SARIF parsers, the isolation reference (route A lifting + passes).", ref="5/C03"),
 "C05": dict(category="model_checking", technique="exhaustive enumeration of all strings up to a length bound over a 7-symbol alphabet: product of the real comment stripper with a reference automaton",
   text="Every string of length <=8 (thorough <=10) over {/,*,newline,a,blank,quote,2-byte char} goes through the real preprocess (hook H1) and the 3-state reference automaton written from the property text: both accept or both report an unterminated comment, output length equals input length, code bytes identical, comment bytes blank. The implementation reacts to (state, char class, next class) triples, all of which are reached by strings of length <=4 and continued by every 4-6 symbol suffix.",
   note="Trusted: mc/src/refsem/lexer.rs (60 lines). Part (b), transparency through the whole pipeline, is reported in the same evidence file once built.", ref="5/C05"),
 "C06": dict(category="exploration", technique="bounded exhaustive program enumeration (operator table x literal alphabet x 3 primes; control-flow skeletons x atoms x conditions x valuations) with a reference interpreter executing the real SSA CFG and auditing every value claim at every dynamic evaluation",
   text="Every value attached to an IR node (expression nodes, phi nodes, substitution statements) is compared with the node's concrete value at each evaluation in each run of an independent interpreter over the real SSA graph, for all 20 infix / 3 prefix / ternary / boolean-connective operators over a 14-value literal alphabet under the three primes, and for every control-flow skeleton <=3/4 statements x 7 atoms x 4 conditions (incl. uninitialised locals) as function and template, n in {0,1,2,p-1}. CS0009 and the Num2Bits size test read exactly these claims.",
   note="Trusted: mc/src/refsem/interp.rs + refsem/field.rs. Literals below the field size; runs that trap (division by zero, unassigned signal) are discarded; values outside the alphabets are not covered.", ref="5/C06"),
 "C07": dict(category="exploration", technique="bounded exhaustive enumeration of expressions (operator x operand class) and merge programs; finite-difference oracle along lines of a fixed grid using the reference interpreter on the real SSA CFG",
   text="For every node with a claimed degree bound d in {constant, linear, quadratic} the node is evaluated at 4 points of 30 lines (6 bases x 5 directions) in the space of indeterminates (signals/ports in templates, parameters in functions); the (d+1)-th finite difference must vanish. A polynomial of total degree <= d has degree <= d on every line, so a non-zero difference proves the claim false (no false alarm possible); array bounds are audited on every element at each update. Spaces: 20 infix x 14^2 operand classes, prefix, ternary, depth-2 combinations (thorough), and control-flow merging programs.",
   note="One-sided by construction: a vanishing difference proves nothing. Trusted: interpreter, field reference. One open known finding (array forgets an element of unknown degree).", ref="5/C07"),
 "C08": dict(category="exploration", technique="bounded exhaustive enumeration of statement sequences over a 14-form alphabet x 3 contexts, through the real parser/desugarer/lifter/pass with generator-recorded spans and an independent token scan",
   text="Templates whose body is every sequence of <=3 (4) items from 14 forms (scalar, -->, array element, loop-indexed element, component input, component array input, declaration with <--, tuple, anonymous component output, anonymous component named <-- input, <==, ===, array ===, quadratic <--) in contexts {top, if, for}: the number of signal-assignment findings anchored at each `<--`/`-->` statement (at the call for anonymous inputs, at the element for tuples) is exactly one, none elsewhere, none in custom templates or functions; secondaries of `signal assignment` findings are exactly the constraint statements mentioning the assigned signal; generator count = token-scan count.",
   note="Trusted: span recorder in mc/src/props/c08.rs, token scanner. Only definitions that lift are judged (others belong to C02).", ref="5/C08"),
 "C11": dict(category="exploration", technique="complete enumeration of a finite domain: documented table (parsed from the doc at check time) + near-miss names, all constant sizes 0..300 + non-constant forms, all case spellings and one-edit neighbours of the curve names",
   text="CS0016 iff the documented template/curve table (Circomlib spelling) marks the pair, never under BN254, for 26 names + ~9 near misses each x 3 instantiation forms x 3 curves; Num2Bits/Bits2Num(n) flagged under BN254 unless n is a constant < 254, for every n in 0..300 and 8 non-constant / computed forms, never under other curves; an unsafe Num2Bits(k) (2^k - 1 > p/2, computed from the prime) never silences the LessThan finding; curve names accepted iff case-insensitively equal to one of the three (all 1036 case spellings + every one-edit neighbour), 40 of them through the binary.",
   note="Trusted: the table parser, primes in refsem/field.rs. Finite domain, fully enumerated.", ref="5/C11"),
 "C12": dict(category="exploration", technique="bounded exhaustive enumeration of control-flow skeletons; structural invariants + dominance by definition on the real CFG",
   text="Every control-flow skeleton (if/if-else/while/for/blocks; bare, empty and braced bodies up to 4/5 statements, braced bodies up to 7/8 statements, nesting <=3) is lifted by the real into_cfg and into_ssa as function and as template; entry/reachability/mirror/branch-position/target/successor-count invariants, i dom j => i<=j with dominance by definition, the recorded loop depth against the loop nesting the generator recorded for each statement, and edge preservation by SSA are checked on every one.",
   note="Trusted: generator span recorder (mc/src/space/prog.rs), refsem/dom.rs. Skeletons beyond the statement bound are covered only by the small-scope argument.", ref="5/C12"),
 "C13": dict(category="model_checking", technique="exhaustive decision-string DFS (stateless, replay-from-prefix) walking the generator's structured program and the real CFG in lock-step",
   text="For every program of the skeleton space and every branch/loop decision string (loops unrolled <=2/3 times per entry) the statement sequence of the structured source (for = init/cond/body/step, compound assignments expanded, stop at first return) is compared with the sequence met on the real CFG under the same decisions, before and after SSA conversion. Exploration is on the implementation itself, so every trace is validated against it.",
   note="Trusted: the structural walker (mc/src/refsem/walk.rs) and span recorder. Paths beyond the unrolling bound are not explored.", ref="5/C13"),
 "C14": dict(category="model_checking", technique="bounded exhaustive program enumeration + static SSA audit with dominance by definition + exhaustive path exploration of the real SSA graph tracking last-written versions",
   text="Every skeleton <=3/4 statements x every assignment of a 9-atom alphabet (assign, self-update, copy, redeclare, array element updates, parameter read/write, uninitialised declaration) x conditions x initialised/uninitialised array is converted by the real into_ssa; a static audit checks single definition, phi placement, dominance of every read by its definition (dominators recomputed by definition), unversioned signals, declaration coverage; then every path (each block visited <= unroll+1 times) is walked keeping the version written last per variable: every read must name it and every phi must list the version current on the edge taken.",
   note="Trusted: mc/src/props/c14.rs audit code, refsem/dom.rs. One open known finding (phi without argument for a path on which the variable is never assigned).", ref="5/C14"),
 "C17": dict(category="model_checking", technique="exhaustive enumeration of analysis orders (real runner, hook H3), file orders, definition orders and unrelated-definition subsets; hash seeds enumerated through a getrandom shim with each seed replayed twice",
   text="Projects = the C03 instantiation digraphs. (a) every permutation of analyze(d) on the real runner; (b) every order of the named files through the binary; (c) every order of the definitions inside a file, findings compared position-independently (id, level, message, labelled texts); (d) every non-empty subset of three unrelated definitions added, findings of the original definitions unchanged; (e) hash seeds 0..16 (128) through the LD_PRELOAD getrandom shim, every seed run twice (byte-identical output proves the nondeterminism is owned), multisets equal across seeds.",
   note="(e) enumerates seeds, not all iteration orders of all maps: owned and replayable but not exhaustive. Trusted: shim/getrandom.c, stdout parser.", ref="5/C17"),
 "C19": dict(category="model_checking", technique="exhaustive enumeration of all include graphs on <=3 files x spellings x named subsets x library configurations through the binary, with an in-process twin for the file library",
   text="Every adjacency matrix (self-includes, cycles, diamonds) on 1..3 files x edge spelling {plain, ./, sub/../, symlink alias, mixed} x every non-empty set of named files x library configuration {none, unresolvable, -L dir, -L file, -L dir + library file also named} + one edge retargeted to a missing file. Oracle: terminates; analysed templates = templates of named files; findings only in named files; one CS0018 per instantiated included template (included definitions inform the analysis); an unresolvable include yields an error at the include statement's line:1; each canonical file appears exactly once in the file library and the set of files read equals the reachable set.",
   note="Trusted: the include-graph model in mc/src/props/c19.rs. Graphs beyond 3 files are not explored.", ref="5/C19"),
 "C20": dict(category="model_checking", technique="exhaustive enumeration of every propagation cut point (pass budget 0..fix-point, hook H2) for values and degrees independently, C06/C07 oracles and all analysis passes at every cut state",
   text="For every program of slices of the C06/C07 spaces the number of passes to the fix-point is learned, then SSA conversion is re-run with every pass budget 0..=Pv (values) and 0..=Pd (degrees): conversion must return, all 13 analysis passes must run without panic, and every value / degree claim present at that cut must satisfy the C06 / C07 oracle. States = (program, kind, cut index); transitions = passes executed; all on the real code.",
   note="Hook H2 (pass budget next to the elapsed-time test). Budget 0 is included. A violation that is also present at the fix-point is tagged so and belongs to C06/C07.", ref="5/C20"),
 "C15": dict(category="exploration", technique="bounded exhaustive enumeration of all rooted digraphs (n<=5 quick; n=6 up to 10 edges thorough) against dominance-by-definition",
   text="Every edge set on up to 5 nodes (thorough: 6 nodes, <=10 edges) whose nodes are all reachable from the entry is pushed through the real generic DominatorTree::new and compared, node by node, with dominators/idom/children/frontier computed from their definitions (node deletion + reachability). Exhaustive within the node bound, no isomorphism reduction; small-scope argument beyond it.",
   note="Trusted: the 60-line reference in mc/src/refsem/dom.rs. The 'randomly beyond the bound' clause is sampling and not done.", ref="5/C15"),
 "C16": dict(category="exploration", technique="bounded exhaustive enumeration of operand pairs over small prime fields + boundary alphabet for the real primes, against an independent reference",
   text="All 20 binary, 3 unary operations and as_bool of modular_arithmetic on all operand pairs of every prime <=31 and 257 (thorough: <=67,127,251,257) and on all pairs of a ~45-value boundary alphabet for BN254/BLS12-381/Goldilocks; reference written from the Circom language definition with BigUint primitives only. Over-large shifts run in an isolated worker (2 s, 1 GiB) so a hang is a replayable violation.",
   note="Trusted: mc/src/refsem/field.rs and num-bigint-dig primitives. Operands are canonical field elements; values of the real primes outside the boundary alphabet are not covered.", ref="5/C16"),
}

def main():
    hooks = subprocess.run(["git","-C","/repo","log","--format=%H %s"],capture_output=True,text=True).stdout.splitlines()
    hook_commits = [l.split()[0] for l in hooks if " verif hook " in " "+l]
    checks = []
    for pid in sorted(CHECKS):
        c = CHECKS[pid]
        checks.append({
            "property_id": pid,
            "quick_cmd": f"./check {pid} quick",
            "thorough_cmd": f"./check {pid} thorough",
            "evidence_file": f"/verif/evidence/{pid}.json",
            "replay_cmd_template": f"./check {pid} --replay {{path}}",
            "engine": "vmc",
            "level_claimed": {"category": c["category"], "text": c["text"], "design_ref": "DESIGN.md section "+c["ref"]},
            "level_note": c["note"],
            "technique": c["technique"],
        })
    props = [json.loads(l)["id"] for l in open("/verif/properties.jsonl")]
    not_applicable = [{"property_id": p, "reason": "check not built yet in this revision of /verif (planned, see DESIGN.md section 5)"} for p in props if p not in CHECKS]
    manifest = {
        "version": 1,
        "setup_cmd": "./check --build",
        "hooks": {
            "guard": "cargo feature `verif` on circomspect-parser, circomspect-program-structure, circomspect-program-analysis (default off)",
            "enable": "the harness crate /verif/mc path-depends on the /repo crates with features=[\"verif\"]; the production binary is built with the feature off",
            "baseline_off_cmd": "cd /repo && cargo test --workspace --no-fail-fast --offline",
            "source_commits": hook_commits,
            "add_only": True,
        },
        "engines": [{"name": "vmc", "path": "/verif/mc", "serves_properties": sorted(CHECKS), "kind_free_text": "Rust harness: bounded exhaustive enumerators + reference models + explorers driving the real crates in-process and the real binary as a subprocess"}],
        "checks": checks,
        "not_applicable": not_applicable,
        "notes": "Known findings: /verif/known_findings.jsonl. Exit 2 = machinery failure (never a verdict).",
    }
    json.dump(manifest, open("/verif/MANIFEST.json","w"), indent=1)
    print("checks:", len(checks), "not_applicable:", len(not_applicable))

main()
